//! C02, C03, C04, C14 — per-step refinement of the incrementally updated methods against their from-scratch
//! definitions (reduced fit, DESIGN.md §1.3), on fault-feed streams.

use crate::common::*;
use crate::feed::FaultCount;
use crate::meng::{self, MCase};
use crate::rng::Rng;
use crate::sut;
use serde_json::json;

pub struct DefCheck {
	pub id: &'static str,
	pub suts: &'static [&'static str],
}

pub const C02_SUTS: &[&str] = &[
	"SMA", "WMA", "SWMA", "TRIMA", "HMA", "LinReg", "Conv", "VWMA", "Integral", "Derivative", "Momentum", "RateOfChange",
	"Past", "StDev", "MeanAbsDev", "MedianAbsDev", "CCI", "LinearVolatility", "ADI",
];
pub const C03_SUTS: &[&str] = &[
	"EMA", "DMA", "TMA", "DEMA", "TEMA", "RMA", "WSMA", "TSI", "Vidya", "TR", "HeikinAshi", "Integral", "ADI",
];
pub const C04_SUTS: &[&str] = &["Highest", "Lowest", "HighestLowestDelta", "HighestIndex", "LowestIndex", "SMM", "MedianAbsDev"];
pub const C14_SUTS: &[&str] = &[
	"Cross", "CrossAbove", "CrossUnder", "ReversalSignal", "UpperReversalSignal", "LowerReversalSignal",
];

impl Check for DefCheck {
	type Case = MCase;
	fn id(&self) -> &'static str {
		self.id
	}
	fn runs(&self, tier: Tier) -> u64 {
		let per = match (self.id, tier) {
			(_, Tier::Quick) => 8_000,
			("C14", Tier::Thorough) => 150_000,
			(_, Tier::Thorough) => 100_000,
		};
		per * self.suts.len() as u64
	}
	fn generate(&self, root: &Rng, i: u64, tier: Tier) -> MCase {
		let run = root.sub_i("run", i);
		let name = self.suts[(i % self.suts.len() as u64) as usize];
		let k = i / self.suts.len() as u64;
		let info = sut::method(name).expect("known method");
		let mut rc = run.sub("config");
		let mut params = meng::gen_params(&info, &mut rc, tier, k, tier == Tier::Thorough && k % 2 == 0);
		// the windowless variants belong to C03, the windowed ones to C02
		if matches!(name, "Integral" | "ADI") {
			params = if self.id == "C03" {
				sut::Params::Len(0)
			} else if params == sut::Params::Len(0) {
				sut::Params::Len(1 + k % 20)
			} else {
				params
			};
		}
		let n = params.len() as usize;
		let fault_free = k % 3 == 0;
		let len = match self.id {
			// reversal detectors and position counters: beyond 4 * PeriodType::MAX
			"C14" if name.contains("Reversal") => {
				if sut::PMAX > 255 && sut::PMAX <= 65_535 && k % 16 == 5 {
					// beyond the capacity of a 16-bit position counter
					sut::PMAX as usize + 500 + rc.usize_below(1000)
				} else if rc.chance(0.5) {
					(4 * 256 + rc.usize_below(600)).min(if tier == Tier::Quick { 1500 } else { 6000 })
				} else {
					50 + rc.usize_below(400)
				}
			}
			_ => {
				// quick: one run in eight goes beyond 2^10 steps (anything that happens "every 1024 values")
				let base = if tier == Tier::Quick && k % 8 == 5 {
					1100 + rc.usize_below(1500)
				} else {
					50 + rc.usize_below(if tier == Tier::Quick { 700 } else if k % 5 == 0 { 9950 } else { 2950 })
				};
				base.max(2 * n + 10).min(10_000)
			}
		};
		let mut fc = FaultCount::new();
		let stream = meng::gen_stream(&info, &params, &mut run.sub("feed"), len, fault_free, &mut fc);
		MCase {
			sut: name.to_string(),
			params,
			stream,
			alt: Vec::new(),
			ops: Vec::new(),
			feed_faults: fc,
			first_chunk: 0,
			cfg: None,
		}
	}
	fn execute(&self, case: &MCase, stats: &mut Stats) -> Vec<Violation> {
		let Some(info) = meng::factory(case) else { return Vec::new() };
		stats.suts.insert(case.sut.clone());
		for (k, v) in &case.feed_faults {
			stats.fault_n(k, *v);
		}
		let n = case.params.len();
		let prop = meng::def_property_p(&case.sut, &case.params);
		if case.stream.is_empty() {
			return Vec::new();
		}
		let outs = match meng::run_a(&info, &case.stream) {
			Ok(o) => o,
			Err((step, m)) => {
				// a panic on documented-valid parameters and finite inputs: the definition cannot be met at that step
				stats.probe("sut_panicked");
				return vec![Violation::new(
					prop,
					&case.sut,
					"panic_instead_of_value",
					step.min(case.stream.len()),
					format!("no value returned: {m}"),
				)
				.tag("length", n)];
			}
		};
		stats.ticks += outs.len() as u64;
		for o in &outs {
			stats.log(o.hash());
		}
		let regime = if case.feed_faults.is_empty() { "calm" } else { "faulty" };
		stats.cover(format!("{}|{}|{regime}|warmup", case.sut, meng::len_class(n)));
		if case.stream.len() as u64 > n {
			stats.cover(format!("{}|{}|{regime}|steady", case.sut, meng::len_class(n)));
		}
		for k in case.feed_faults.keys() {
			stats.cover(format!("{}|{}|{k}", case.sut, meng::len_class(n)));
		}
		let mut ratio = 0.0;
		let vs = meng::check_defs(case, &outs, stats, &mut ratio);
		stats.maximum(&case.sut, ratio);
		let mut vs: Vec<Violation> = vs.into_iter().filter(|v| v.property == self.id).collect();
		// second replica: built from element 0 and fed from element 1 on (the construction value is the prehistory whether
		// or not it is delivered once more); the warm-up region is where the two can differ
		let m = case.stream.len().min(3 * n as usize + 50);
		// (not the reversal detectors: they number positions from the first delivered value and rely on the API's protocol -
		// "initial value = simply first input value", which is then delivered - so they never see a stream that does not
		// start with their construction value)
		if vs.is_empty() && m >= 2 && !case.sut.contains("Reversal") {
			let mut sub = case.clone();
			sub.stream.truncate(m);
			stats.fault("first_tick_not_redelivered");
			match meng::run_a_no_refeed(&info, &sub.stream) {
				Ok(o2) => {
					stats.ticks += o2.len() as u64;
					let mut r2 = 0.0;
					vs.extend(meng::check_defs_from(&sub, &o2, stats, &mut r2, true).into_iter().filter(|v| v.property == self.id));
				}
				Err((step, msg)) => vs.push(Violation::new(prop, &case.sut, "panic_instead_of_value", step.min(m), format!("no value returned (instance fed from element 1 on): {msg}")).tag("length", n)),
			}
		}
		vs
	}
	fn shrink(&self, case: &MCase) -> Vec<MCase> {
		meng::shrink_mcase(case, 1)
	}
	fn rule(&self) -> String {
		format!(
			"One evaluation = one seeded (method, parameters, fault-feed stream) run of the real method (new + next per element) \
			 refined step by step against the from-scratch reference of {}; every third run uses the fault-free feed configuration. \
			 Coverage tuple = (method, length class, feed regime or fault kind, warm-up | steady); distinct_nontrivial counts \
			 tuples of runs whose stream contains at least one fired feed fault (stuck feed, ties, spike, scale jump, gap, zeros). \
			 Reduced fit: no schedule or interleaving is explored, because the property has none.",
			self.id
		)
	}
	fn assumptions(&self) -> Vec<String> {
		vec![
			"rounding allowance = tracked error bound of DESIGN.md §3.2 with frozen per-method drift constants".into(),
			"reference models written from the method documentation (DESIGN.md Appendix A)".into(),
		]
	}
	fn components(&self) -> serde_json::Value {
		json!({"real": self.suts, "stub": ["seeded feed generator with feed faults", "tracked-number reference models"]})
	}
}
