//! Method engine: the two-run discipline (DESIGN.md §2.5) for yata methods.
//! Run A = `new` + `next` element by element; run B = the drawn operation trace (batching, peek, snapshot,
//! crash/restore, fork, storage faults). Definitional oracles are evaluated on run A.

use crate::common::*;
use crate::feed::{self, FaultCount, FeedCfg};
use crate::refm::{self, RefOut};
use crate::rng::Rng;
use crate::simfmt::{self, SerCtl, Value};
use crate::sut::{self, In, InKind, MethodInfo, Out, PKind, Params, Sut, PMAX};
use serde::{Deserialize, Serialize};
use std::collections::BTreeMap;

#[derive(Clone, Debug, Serialize, Deserialize, PartialEq)]
pub enum Op {
	Tick,
	/// deliver the next k elements through batch API `api` (index into sut::API_NAMES)
	Batch { api: u8, k: u32 },
	Peek,
	/// fmt: 0 tree, 1 byte codec, 2 JSON
	Snapshot { fmt: u8 },
	CrashRestore,
	Fork,
	/// feed the fork its next alternative value
	ForkTick,
	SerFail(u32),
	/// storage fault on a fresh snapshot: kind index into STORAGE_FAULTS, argument
	Corrupt { kind: u8, arg: u32 },
}

pub const STORAGE_FAULTS: [&str; 9] = [
	"truncate",
	"bitflip",
	"window_index_eq_len",
	"window_index_plus",
	"window_index_max",
	"window_buf_oversize",
	"window_buf_empty_idx1",
	"drop_field",
	"window_nan",
];

#[derive(Clone, Debug, Serialize, Deserialize)]
pub struct MCase {
	pub sut: String,
	pub params: Params,
	pub stream: Vec<In>,
	/// alternative continuation for forked replicas
	#[serde(default)]
	pub alt: Vec<In>,
	#[serde(default)]
	pub ops: Vec<Op>,
	/// feed faults that fired while this stream was generated (carried for the evidence counters)
	#[serde(default)]
	pub feed_faults: BTreeMap<String, u64>,
	/// first-chunk length for the new_over / new_apply comparison (0 = also the empty sequence)
	#[serde(default)]
	pub first_chunk: u32,
	/// indicator configuration tree (None for methods)
	#[serde(default)]
	pub cfg: Option<Value>,
}

/// how to build the system under test of a case
pub struct Factory {
	pub name: String,
	pub peek: bool,
	pub serde: bool,
	pub is_indicator: bool,
	pub make: Box<dyn Fn(&In) -> Result<Box<dyn Sut>, String>>,
}

pub fn factory(case: &MCase) -> Option<Factory> {
	if let Some(cfg) = &case.cfg {
		let info = crate::ieng::indicator(&case.sut)?;
		let cfg = cfg.clone();
		let mk = info.make;
		return Some(Factory {
			name: case.sut.clone(),
			peek: false,
			serde: info.inst_serde,
			is_indicator: true,
			make: Box::new(move |first| mk(&cfg, first)),
		});
	}
	let info = sut::method(&case.sut)?;
	let p = case.params.clone();
	let mk = info.make;
	Some(Factory {
		name: case.sut.clone(),
		peek: info.peek,
		serde: info.serde,
		is_indicator: false,
		make: Box::new(move |first| mk(&p, first)),
	})
}

pub fn len_class(n: u64) -> &'static str {
	match n {
		0 => "0",
		1 => "1",
		2 => "2",
		3..=8 => "3-8",
		9..=64 => "9-64",
		65..=253 => "65-253",
		254 => "254",
		_ => ">254",
	}
}

// ------------------------------------------------------------------------------------------------
// parameter domains (documented-valid parameters only; boundary/invalid ones belong to C10)

pub fn max_len(tier: Tier) -> u64 {
	let cap = if tier == Tier::Thorough { 3000 } else { 600 };
	(PMAX - 1).min(if PMAX > 255 { cap } else { 254 })
}

fn pick_len(r: &mut Rng, lo: u64, hi: u64, i: u64, stratify: bool) -> u64 {
	if stratify {
		return lo + i % (hi - lo + 1);
	}
	match r.below(10) {
		0 => lo,
		1 => (lo + 1).min(hi),
		2 => hi,
		3 => hi.saturating_sub(1).max(lo),
		4 => (hi / 2).max(lo),
		5 | 6 => r.range(lo, hi.min(lo + 14)),
		_ => r.range(lo, hi),
	}
}

pub fn gen_params(info: &MethodInfo, r: &mut Rng, tier: Tier, i: u64, stratify: bool) -> Params {
	let hi = max_len(tier);
	match info.pkind {
		PKind::Len => {
			let (lo, hi) = match info.name {
				"HMA" | "LinReg" | "StDev" | "MedianAbsDev" => (2, hi),
				"WSMA" => (1, (PMAX / 2).min(hi)),
				"Integral" | "ADI" => (0, hi),
				_ => (1, hi),
			};
			Params::Len(pick_len(r, lo, hi, i, stratify))
		}
		PKind::Two => {
			if info.name == "TSI" {
				Params::Two(pick_len(r, 1, hi, i, false), pick_len(r, 1, hi, i / 7, false))
			} else {
				// left + right + 1 <= MAX - 1
				let total = pick_len(r, 2, hi - 1, i, stratify);
				let left = r.range(1, total - 1);
				Params::Two(left, total - left)
			}
		}
		PKind::Unit => Params::Unit,
		PKind::Weights => {
			let n = pick_len(r, 1, hi, i, stratify) as usize;
			let style = r.below(5);
			let mut w: Vec<Fx> = (0..n)
				.map(|j| {
					Fx(sut::vt(match style {
						0 => 1.0,
						1 => (j + 1) as f64,
						2 | 4 => r.unit() + 0.01,
						_ => r.unit() * 2.0 - 0.6, // some negative
					}))
				})
				.collect();
			if style == 4 && n >= 2 {
				// lagged / sparse kernels: exact zeros at the newest end, the oldest end and inside (at least one weight stays)
				let keep = r.usize_below(n);
				let z_new = r.usize_below(n.min(4));
				let z_old = r.usize_below(n.min(4));
				for (j, x) in w.iter_mut().enumerate() {
					if j != keep && (j >= n - z_new || j < z_old || r.chance(0.15)) {
						*x = Fx(0.0);
					}
				}
			}
			Params::Weights(w)
		}
		PKind::Usize => Params::Usize(match r.below(6) {
			0 => 1,
			1 => 2,
			_ => r.range(1, 40),
		}),
		PKind::Renko => {
			let size = match r.below(6) {
				0 => 0.01,
				1 => 0.5,
				2 => 0.999,
				3 => 1e-4,
				_ => 10f64.powf(-(r.unit() * 3.5) - 0.05),
			};
			Params::Renko(Fx(sut::vt(size)), [0u8, 0, 0, 1, 2, 3, 4, 5][r.usize_below(8)])
		}
		PKind::Ma => {
			let k = (i % 15) as u8;
			let (lo, hi) = match sut::MA_KINDS[k as usize] {
				"HMA" | "LinReg" => (2, hi),
				"WSMA" => (1, (PMAX / 2).min(hi)),
				_ => (1, hi),
			};
			Params::Ma(k, pick_len(r, lo, hi, i / 15, false))
		}
	}
}

// ------------------------------------------------------------------------------------------------
// streams per input kind

pub fn gen_stream(info: &MethodInfo, p: &Params, r: &mut Rng, len: usize, fault_free: bool, fc: &mut FaultCount) -> Vec<In> {
	let window = (p.len().min(5000) as usize).max(1);
	let mut cfg = FeedCfg::swarm(&mut r.sub("feedcfg"), window, fault_free);
	let mut rv = r.sub("values");
	match info.input {
		InKind::Val => {
			if matches!(info.name, "RateOfChange") {
				cfg.signed = false;
				cfg.integer = false;
			}
			if is_selection(info.name) && !fault_free && rv.chance(0.6) {
				// subnormal magnitudes only where every operation of the method is a selection (exact for any value)
				return order_pattern(&mut rv, len, window, fc, info.name != "MedianAbsDev");
			}
			let mut vals = feed::values(&mut rv, len, &cfg, fc);
			// RateOfChange divides by the value leaving the window: streams stay away from zero, but three in ten lie
			// entirely below it (a negative base must keep its sign in the quotient)
			if matches!(info.name, "RateOfChange") && rv.chance(0.3) {
				for v in vals.iter_mut() {
					*v = -*v;
				}
				*fc.entry("feed:all_negative".into()).or_insert(0) += 1;
			}
			feed::to_in_vals(&vals)
		}
		InKind::Pair => {
			if info.name == "VWMA" {
				let mut c2 = cfg.clone();
				c2.signed = false;
				c2.integer = false;
				let a = feed::values(&mut rv, len, &cfg, fc);
				let mut vol = feed::values(&mut r.sub("volumes"), len, &c2, &mut FaultCount::new());
				// candles without trades: exactly zero volume next to candles with volume
				if !fault_free && rv.chance(0.4) {
					let mut rz = r.sub("zero_volume");
					for w in vol.iter_mut().skip(1) {
						if rz.chance(0.15) {
							*w = 0.0;
						}
					}
					*fc.entry("feed:zero_volume".into()).or_insert(0) += 1;
				}
				a.iter().zip(vol).map(|(x, w)| In::p(*x, w)).collect()
			} else {
				// crossing detectors: two series that touch and cross often
				let a = feed::values(&mut rv, len, &cfg, fc);
				let mut rb = r.sub("base");
				let mode = rb.below(4);
				let b: Vec<f64> = match mode {
					0 => feed::values(&mut rb, len, &cfg, &mut FaultCount::new()),
					1 => {
						// touches: base equals value on a random subset
						fc.entry("feed:touch".into()).and_modify(|x| *x += 1).or_insert(1);
						let level = a[0];
						a.iter().map(|x| if rb.chance(0.3) { *x } else { level }).collect()
					}
					2 => vec![0.0; len],
					_ => a.iter().map(|x| if rb.chance(0.5) { *x } else { x + (rb.unit() - 0.5) * x.abs().max(1e-3) }).collect(),
				};
				a.iter().zip(b).map(|(x, y)| In::p(*x, y)).collect()
			}
		}
		InKind::Candle => {
			if info.name == "Renko" {
				// Renko's boundary faults are injected by C17's own generator; here: ordinary candles
				cfg.scale_exp = cfg.scale_exp.clamp(-3, 3);
			}
			feed::to_in_candles(&feed::candles(&mut rv, len, &cfg, fc))
		}
	}
}

pub fn is_selection(name: &str) -> bool {
	matches!(
		name,
		"Highest"
			| "Lowest" | "HighestLowestDelta"
			| "HighestIndex"
			| "LowestIndex"
			| "SMM" | "MedianAbsDev"
			| "ReversalSignal"
			| "UpperReversalSignal"
			| "LowerReversalSignal"
	)
}

/// streams built over order patterns: small alphabets (with both zeros), saw-teeth whose period is n-1, n, n+1,
/// monotone runs, equal extrema entering as one leaves
pub fn order_pattern(r: &mut Rng, len: usize, n: usize, fc: &mut FaultCount, subnormal_ok: bool) -> Vec<In> {
	let mut out: Vec<f64> = Vec::with_capacity(len);
	let bump = |fc: &mut FaultCount, k: &str| {
		*fc.entry(k.to_string()).or_insert(0) += 1;
	};
	let mut scale = 10f64.powi(r.range(0, 6) as i32 - 3);
	if subnormal_ok && r.chance(0.08) {
		// the smallest positive ValueType: every pattern value is a small multiple of it (halving such a value rounds)
		scale = yata::core::ValueType::from_bits(1) as f64;
		bump(fc, "feed:subnormal_magnitudes");
	}
	while out.len() < len {
		let seg = (1 + r.usize_below(3 * n + 10)).min(len - out.len());
		match r.below(8) {
			7 => {
				// zeros of both signs as the extremum of the window: every other letter lies strictly on one side
				let side = if r.chance(0.5) { 1.0 } else { -1.0 };
				let letters = [0.0, -0.0, side * scale, 2.0 * side * scale, 0.0, -0.0];
				for _ in 0..seg {
					out.push(*r.pick(&letters));
				}
				bump(fc, "feed:signed_zero_extremum");
			}
			0 => {
				let k = 2 + r.usize_below(5);
				let mut letters: Vec<f64> = (0..k).map(|j| (j as f64 - 1.0) * scale).collect();
				if r.chance(0.5) {
					letters.push(0.0);
					letters.push(-0.0);
					bump(fc, "feed:both_zeros");
				}
				for _ in 0..seg {
					out.push(*r.pick(&letters));
				}
				bump(fc, "feed:alphabet_ties");
			}
			1 | 2 => {
				// saw-tooth with period n-1, n, n+1
				let period = (n as i64 + r.range(0, 2) as i64 - 1).max(2) as usize;
				let up = r.chance(0.5);
				for j in 0..seg {
					let ph = (j % period) as f64;
					out.push(scale * if up { ph } else { period as f64 - ph });
				}
				bump(fc, "feed:sawtooth_period_near_n");
			}
			3 => {
				let s = if r.chance(0.5) { 1.0 } else { -1.0 };
				let base = out.last().copied().unwrap_or(0.0);
				for j in 0..seg {
					out.push(base + s * scale * j as f64);
				}
				bump(fc, "feed:monotone_run");
			}
			4 => {
				// equal extrema spaced exactly n apart
				let peak = scale * 100.0;
				for j in 0..seg {
					out.push(if j % n.max(1) == 0 { peak } else { scale * r.below(5) as f64 });
				}
				bump(fc, "feed:equal_extrema_spaced_n");
			}
			5 => {
				let v = out.last().copied().unwrap_or(scale);
				for _ in 0..seg {
					out.push(v);
				}
				bump(fc, "feed:stuck");
			}
			_ => {
				let mut x = out.last().copied().unwrap_or(0.0);
				for _ in 0..seg {
					x += scale * r.normal();
					out.push(x);
				}
			}
		}
	}
	out.truncate(len);
	feed::to_in_vals(&out)
}

// ------------------------------------------------------------------------------------------------
// run A

pub enum Made {
	Ok(Box<dyn Sut>),
	Rejected(String),
	Panicked(String),
}

pub fn construct(f: &Factory, first: &In) -> Made {
	match guarded(|| (f.make)(first)) {
		Ok(Ok(s)) => Made::Ok(s),
		Ok(Err(e)) => Made::Rejected(e),
		Err(p) => Made::Panicked(p),
	}
}

/// outputs of `new(params, &x0)` followed by `next` on every element; Err((step, panic message)) on a panic
pub fn run_a(f: &Factory, stream: &[In]) -> Result<Vec<Out>, (usize, String)> {
	let mut s = match construct(f, &stream[0]) {
		Made::Ok(s) => s,
		Made::Rejected(e) => return Err((usize::MAX, format!("constructor rejected documented-valid parameters: {e}"))),
		Made::Panicked(m) => return Err((usize::MAX - 1, format!("constructor panicked: {m}"))),
	};
	let mut outs = Vec::with_capacity(stream.len());
	for (i, x) in stream.iter().enumerate() {
		match guarded(|| s.next(x)) {
			Ok(o) => outs.push(o),
			Err(m) => return Err((i, m)),
		}
	}
	Ok(outs)
}

/// `new(params, &x0)` followed directly by `next(x1), next(x2) ...` - the construction value is not fed again; it still
/// counts as the whole prehistory. Output i belongs to stream element i + 1.
pub fn run_a_no_refeed(f: &Factory, stream: &[In]) -> Result<Vec<Out>, (usize, String)> {
	let mut s = match construct(f, &stream[0]) {
		Made::Ok(s) => s,
		Made::Rejected(e) => return Err((usize::MAX, format!("constructor rejected documented-valid parameters: {e}"))),
		Made::Panicked(m) => return Err((usize::MAX - 1, format!("constructor panicked: {m}"))),
	};
	let mut outs = Vec::with_capacity(stream.len());
	for (i, x) in stream.iter().enumerate().skip(1) {
		match guarded(|| s.next(x)) {
			Ok(o) => outs.push(o),
			Err(m) => return Err((i, m)),
		}
	}
	Ok(outs)
}

/// an instance of the same SUT built from other parameters (another length) and another first value, used for a few
/// ticks: the destination of a `clone_from`
pub fn other_instance(case: &MCase, first: &In) -> Option<Box<dyn Sut>> {
	let mut c2 = case.clone();
	c2.stream.clear();
	c2.alt.clear();
	c2.params = match &case.params {
		Params::Len(n) => Params::Len(if *n > 3 { n / 2 } else { n + 2 }),
		Params::Ma(k, n) => Params::Ma(*k, if *n > 3 { n / 2 } else { n + 2 }),
		Params::Two(a, b) => Params::Two(*b + 1, *a),
		Params::Weights(w) => Params::Weights(w.iter().chain(w.iter()).take(w.len() + 1).copied().collect()),
		Params::Usize(n) => Params::Usize(n + 1),
		other => other.clone(),
	};
	if let Some(cfg) = c2.cfg.as_mut() {
		let n = 2 + crate::cfgmut::max_period_in(cfg) % 5;
		crate::cfgmut::shrink_periods(cfg, n);
	}
	let f = factory(&c2)?;
	let Made::Ok(mut o) = construct(&f, first) else { return None };
	for _ in 0..3 {
		if guarded(|| o.next(first)).is_err() {
			return None;
		}
	}
	Some(o)
}

pub fn def_property(name: &str) -> &'static str {
	match name {
		"SMA" | "WMA" | "SWMA" | "TRIMA" | "HMA" | "LinReg" | "Conv" | "VWMA" | "Derivative" | "Momentum" | "RateOfChange"
		| "Past" | "StDev" | "MeanAbsDev" | "MedianAbsDev" | "CCI" | "LinearVolatility" => "C02",
		"EMA" | "DMA" | "TMA" | "DEMA" | "TEMA" | "RMA" | "WSMA" | "TSI" | "Vidya" | "TR" | "HeikinAshi" => "C03",
		"Highest" | "Lowest" | "HighestLowestDelta" | "HighestIndex" | "LowestIndex" | "SMM" => "C04",
		"Cross" | "CrossAbove" | "CrossUnder" | "ReversalSignal" | "UpperReversalSignal" | "LowerReversalSignal" => "C14",
		_ => "C02",
	}
}

/// property a method's definitional oracle belongs to, given its parameters (windowless Integral/ADI are C03)
pub fn def_property_p(name: &str, p: &Params) -> &'static str {
	match (name, p) {
		("Integral" | "ADI", Params::Len(0)) => "C03",
		("Integral" | "ADI", _) => "C02",
		_ => def_property(name),
	}
}

/// evaluate the definitional oracle on run A's outputs; `max_ratio` receives |y - v| / unit for calibration
pub fn check_defs(case: &MCase, outs: &[Out], stats: &mut Stats, max_ratio: &mut f64) -> Vec<Violation> {
	check_defs_from(case, outs, stats, max_ratio, false)
}

/// `no_refeed`: the outputs come from `run_a_no_refeed` (output i belongs to stream element i + 1)
pub fn check_defs_from(case: &MCase, outs: &[Out], stats: &mut Stats, max_ratio: &mut f64, no_refeed: bool) -> Vec<Violation> {
	let mut vs = Vec::new();
	let skip = usize::from(no_refeed);
	let Some(mut r) = refm::make_ref(&case.sut, &case.params, &case.stream[0]) else {
		stats.probe("no_reference_for_parameters");
		return vs;
	};
	let prop = def_property_p(&case.sut, &case.params);
	let n = case.params.len();
	for (i, x) in case.stream.iter().enumerate().skip(skip) {
		let want = r.next(x);
		match refm::compare(&outs[i - skip], &want) {
			Ok(true) => {
				stats.checked += 1;
				if let RefOut::Arith(t) = &want {
					let u = r.unit();
					if u > 0.0 {
						let ratio = ((outs[i - skip].f(0) - t.v).abs()) / u;
						if ratio > *max_ratio {
							*max_ratio = ratio;
						}
					}
				}
				if let RefOut::Var(t) = &want {
					let u = r.unit();
					if u > 0.0 {
						let y = outs[i - skip].f(0);
						let ratio = ((y * y - t.v).abs()) / u;
						if ratio > *max_ratio {
							*max_ratio = ratio;
						}
					}
				}
			}
			Ok(false) => stats.exempt += 1,
			Err(d) => {
				let phase = if (i as u64) < n { "warmup" } else { "steady" };
				vs.push(
					Violation::new(prop, &case.sut, if no_refeed { "definition_without_refeed" } else { "definition" }, i, format!("step {i} ({phase}){}, input {:?}: {d}", if no_refeed { ", instance built from element 0 and fed from element 1 on" } else { "" }, x))
						.tag("length", n)
						.tag("phase", phase),
				);
				if vs.len() >= 3 {
					break;
				}
			}
		}
	}
	for (k, v) in r.probes() {
		stats.probe_n(k, v);
	}
	vs
}

// ------------------------------------------------------------------------------------------------
// run B

struct Snap {
	pos: usize,
	tree: Value,
	fmt: u8,
}

fn restore_via(s: &dyn Sut, snap: &Snap) -> Option<Result<Box<dyn Sut>, String>> {
	match snap.fmt {
		1 => {
			let bytes = simfmt::encode(&snap.tree);
			match simfmt::decode(&bytes) {
				Ok(t) if t == snap.tree => s.restore(&t),
				_ => {
					eprintln!("harness error: byte codec does not round-trip");
					std::process::exit(2);
				}
			}
		}
		_ => s.restore(&snap.tree),
	}
}

/// apply a storage fault to a snapshot tree; returns (damaged tree or None if decoding the damaged bytes failed,
/// whether the damage certainly left a malformed Window)
pub fn damage(tree: &Value, kind: u8, arg: u32) -> (Option<Value>, bool) {
	let name = STORAGE_FAULTS[(kind as usize) % STORAGE_FAULTS.len()];
	let mut t = tree.clone();
	match name {
		"truncate" | "bitflip" => {
			let mut b = simfmt::encode(tree);
			if b.is_empty() {
				return (None, false);
			}
			if name == "truncate" {
				b.truncate((arg as usize) % b.len());
			} else {
				let bit = (arg as usize) % (b.len() * 8);
				b[bit / 8] ^= 1 << (bit % 8);
			}
			(simfmt::decode(&b).ok(), false)
		}
		"drop_field" => {
			let mut k = 0usize;
			let total = {
				let mut c = 0;
				tree.walk(&mut |v| {
					if matches!(v, Value::Struct(_, f) if !f.is_empty()) {
						c += 1;
					}
				});
				c
			};
			if total == 0 {
				return (None, false);
			}
			let target = (arg as usize) % total;
			t.walk_mut(&mut |v| {
				if let Value::Struct(_, f) = v {
					if !f.is_empty() {
						if k == target {
							let j = (arg as usize / 7) % f.len();
							f.remove(j);
						}
						k += 1;
					}
				}
			});
			(Some(t), false)
		}
		_ => {
			// targeted window faults: pick the (arg mod count)-th window node
			let mut count = 0usize;
			tree.walk(&mut |v| {
				if v.is_window() {
					count += 1;
				}
			});
			if count == 0 {
				return (None, false);
			}
			let target = (arg as usize) % count;
			let mut k = 0usize;
			let mut malformed = false;
			t.walk_mut(&mut |v| {
				if v.is_window() {
					if k == target {
						let len = match v.field("buf") {
							Some(Value::Seq(b)) => b.len() as u64,
							_ => 0,
						};
						let elem = match v.field("buf") {
							Some(Value::Seq(b)) if !b.is_empty() => b[0].clone(),
							_ => Value::F64(0),
						};
						let set_idx = |v: &mut Value, idx: u64| {
							if let Some(f) = v.field_mut("index") {
								*f = match f {
									Value::U8(_) if idx <= 255 => Value::U8(idx as u8),
									Value::U16(_) if idx <= 65535 => Value::U16(idx as u16),
									Value::U32(_) if idx <= u64::from(u32::MAX) => Value::U32(idx as u32),
									_ => Value::U64(idx),
								};
							}
						};
						match name {
							"window_index_eq_len" => {
								set_idx(v, len);
								malformed = len > 0;
							}
							"window_index_plus" => {
								set_idx(v, len + 1 + u64::from(arg % 3));
								malformed = true;
							}
							"window_index_max" => {
								set_idx(v, PMAX);
								malformed = true;
							}
							"window_buf_oversize" => {
								if PMAX <= 255 {
									let idx = v.field("index").and_then(Value::as_u64).unwrap_or(0);
									let target_len = crate::c01::oversize_len(1 + u64::from(arg % 7), idx) as usize;
									if let Some(Value::Seq(b)) = v.field_mut("buf") {
										while b.len() < target_len {
											b.push(elem.clone());
										}
									}
									malformed = true;
								}
							}
							"window_buf_empty_idx1" => {
								if let Some(Value::Seq(b)) = v.field_mut("buf") {
									b.clear();
								}
								set_idx(v, 1);
								malformed = true;
							}
							_ => {
								// NaN inside a window
								if let Some(Value::Seq(b)) = v.field_mut("buf") {
									if !b.is_empty() {
										let j = (arg as usize / 5) % b.len();
										b[j] = match &b[j] {
											Value::F32(_) => Value::F32(f32::NAN.to_bits()),
											Value::F64(_) => Value::F64(f64::NAN.to_bits()),
											o => o.clone(),
										};
									}
								}
							}
						}
					}
					k += 1;
				}
			});
			(Some(t), malformed)
		}
	}
}

pub struct BOut {
	pub violations: Vec<Violation>,
}

/// execute the drawn trace; every per-tick output of every replica must equal run A bit for bit
pub fn run_b(info: &Factory, case: &MCase, a: &[Out], stats: &mut Stats) -> Vec<Violation> {
	let mut vs: Vec<Violation> = Vec::new();
	let name = case.sut.as_str();
	let n = case.params.len();
	let stream = &case.stream;
	let mut s = match construct(info, &stream[0]) {
		Made::Ok(s) => s,
		_ => return vs, // run A reported it
	};
	let mut pos = 0usize;
	let mut snap: Option<Snap> = None;
	// fork replica: (instance, witness built from scratch, index into alt)
	let mut fork: Option<(Box<dyn Sut>, Box<dyn Sut>, usize)> = None;
	let mut events = 0u64;
	let cov = |stats: &mut Stats, what: &str, extra: &str| {
		stats.cover(format!("{name}|{}|{what}|{extra}", len_class(n)));
	};
	macro_rules! mismatch {
		($prop:expr, $pred:expr, $step:expr, $($arg:tt)*) => {{
			vs.push(Violation::new($prop, name, $pred, $step, format!($($arg)*)).tag("length", n));
			if vs.len() >= 3 { return vs; }
		}};
	}
	let ops: Vec<Op> = case.ops.clone();
	let mut oi = 0usize;
	loop {
		let op = if oi < ops.len() {
			let o = ops[oi].clone();
			oi += 1;
			o
		} else if pos < stream.len() {
			Op::Tick
		} else {
			break;
		};
		stats.ops += 1;
		match op {
			Op::Tick => {
				if pos >= stream.len() {
					continue;
				}
				match guarded(|| s.next(&stream[pos])) {
					Ok(o) => {
						if o != a[pos] {
							mismatch!("C09", "identical_instances_diverge", pos, "tick {pos}: run B output {o:?} != run A output {:?} (events so far: {events})", a[pos]);
						}
					}
					Err(m) => {
						mismatch!("C10", "panic_in_next", pos, "next panicked at tick {pos} in run B: {m}");
						return vs;
					}
				}
				stats.log(a[pos].hash());
				stats.checked += 1;
				pos += 1;
				stats.ticks += 1;
			}
			Op::Batch { api, k } => {
				let k = (k as usize).min(stream.len() - pos);
				let chunk = &stream[pos..pos + k];
				let r = guarded(|| s.batch(api, chunk));
				match r {
					Ok(Some(outs)) => {
						events += 1;
						stats.fault(&format!("delivery:{}", sut::API_NAMES[api as usize % 6]));
						let kc = match k {
							0 => "empty",
							1 => "1",
							x if x as u64 == n => "n",
							x if (x as u64) < n => "<n",
							_ => ">n",
						};
						cov(stats, &format!("batch:{}", sut::API_NAMES[api as usize % 6]), kc);
						if outs.len() != k {
							mismatch!("C09", "one_output_per_input", pos, "{} returned {} outputs for {k} inputs", sut::API_NAMES[api as usize % 6], outs.len());
						}
						for (j, o) in outs.iter().enumerate().take(k) {
							if *o != a[pos + j] {
								mismatch!("C09", "batch_equals_streaming", pos + j, "{} chunk [{pos}..{}): element {j} = {o:?}, streaming gives {:?}", sut::API_NAMES[api as usize % 6], pos + k, a[pos + j]);
								break;
							}
						}
						for j in 0..k {
							stats.log(a[pos + j].hash());
						}
						pos += k;
						stats.ticks += k as u64;
						stats.checked += k as u64;
					}
					Ok(None) => {
						// API not available for this SUT: deliver tick by tick
						for j in 0..k {
							if let Ok(o) = guarded(|| s.next(&stream[pos + j])) {
								if o != a[pos + j] {
									mismatch!("C09", "identical_instances_diverge", pos + j, "tick {}: run B output {o:?} != run A output {:?}", pos + j, a[pos + j]);
								}
							}
						}
						pos += k;
						stats.ticks += k as u64;
					}
					Err(m) => {
						mismatch!("C10", "panic_in_batch", pos, "batch API {} panicked: {m}", sut::API_NAMES[api as usize % 6]);
						return vs;
					}
				}
			}
			Op::Peek => {
				if pos == 0 {
					continue;
				}
				if let Ok(Some(p)) = guarded(|| s.peek()) {
					events += 1;
					cov(stats, "peek", if (pos as u64) <= n { "warmup" } else { "steady" });
					stats.probe("peek_compared");
					if p != a[pos - 1] {
						mismatch!("C09", "peek_is_last_output", pos - 1, "peek() = {p:?} after tick {}, the value just produced was {:?}", pos - 1, a[pos - 1]);
					}
				}
			}
			Op::Snapshot { fmt } => {
				let ctl = SerCtl::new(None);
				match guarded(|| s.snapshot(&ctl)) {
					Ok(Some(Ok(tree))) => {
						events += 1;
						stats.fault("snapshot");
						let fmt = if fmt == 2 && tree.has_nonfinite() { 0 } else { fmt };
						snap = Some(Snap { pos, tree, fmt });
					}
					Ok(Some(Err(e))) => {
						mismatch!("C13", "serialize_fails", pos, "serialize returned Err without an injected fault: {e}");
					}
					Ok(None) => {}
					Err(m) => {
						mismatch!("C13", "serialize_panics", pos, "serialize panicked: {m}");
					}
				}
			}
			Op::CrashRestore => {
				let Some(sn) = &snap else { continue };
				stats.fault("crash_restore");
				events += 1;
				let phase = if n == 0 { 0 } else { sn.pos as u64 % n };
				cov(
					stats,
					&format!("restore:fmt{}", sn.fmt),
					&format!("{}|{}", if (sn.pos as u64) < n { "warmup" } else { "steady" }, if phase == 0 { "phase0" } else if phase + 1 == n { "phase_n-1" } else { "phase_mid" }),
				);
				let restored = if sn.fmt == 2 {
					// JSON goes through the live instance (snapshot taken at the same position only)
					if sn.pos == pos {
						guarded(|| s.json_roundtrip())
					} else {
						guarded(|| restore_via(&*s, sn))
					}
				} else {
					guarded(|| restore_via(&*s, sn))
				};
				match restored {
					Ok(Some(Ok(mut r2))) => {
						// only durable state survives: re-deliver the ticks since the snapshot
						for j in sn.pos..pos {
							match guarded(|| r2.next(&stream[j])) {
								Ok(o) => {
									if o != a[j] {
										mismatch!("C13", "restored_instance_diverges", j, "restored from a snapshot taken after {} ticks (format {}): tick {j} gives {o:?}, the original gave {:?}", sn.pos, sn.fmt, a[j]);
										break;
									}
								}
								Err(m) => {
									mismatch!("C13", "restored_instance_panics", j, "restored instance panicked at tick {j}: {m}");
									return vs;
								}
							}
						}
						if let (Ok(Some(p1)), Ok(Some(p0))) = (guarded(|| r2.peek()), guarded(|| s.peek())) {
							if p1 != p0 {
								mismatch!("C13", "restored_peek_differs", pos.saturating_sub(1), "peek() of the restored instance = {p1:?}, of the original {p0:?}");
							}
						}
						s = r2;
					}
					Ok(Some(Err(e))) => {
						mismatch!("C13", "own_snapshot_rejected", sn.pos, "snapshot taken after {} ticks (format {}) was rejected by Deserialize: {e}; snapshot = {}", sn.pos, sn.fmt, sn.tree.render());
					}
					Ok(None) => {}
					Err(m) => {
						mismatch!("C13", "deserialize_panics", sn.pos, "Deserialize panicked on an undamaged snapshot: {m}");
					}
				}
			}
			Op::Fork => {
				if pos == 0 && case.alt.is_empty() {
					continue;
				}
				events += 1;
				stats.fault("fork");
				cov(stats, "fork", if (pos as u64) <= n { "warmup" } else { "steady" });
				// every second fork is a `clone_from` into a used instance of the same type built from other parameters
				let f = if events % 2 == 0 {
					match other_instance(case, &stream[pos.min(stream.len() - 1)]) {
						Some(o) => {
							stats.fault("fork_by_clone_from");
							match guarded(|| s.fork_into(o)) {
								Ok(f) => f,
								Err(m) => {
									mismatch!("C09", "clone_not_independent", pos, "clone_from into a used instance of other parameters panicked: {m}");
									continue;
								}
							}
						}
						None => s.fork(),
					}
				} else {
					s.fork()
				};
				// witness: a fresh instance fed the same prefix
				if let Made::Ok(mut w) = construct(info, &stream[0]) {
					let mut ok = true;
					for x in &stream[..pos] {
						if guarded(|| w.next(x)).is_err() {
							ok = false;
							break;
						}
					}
					if ok {
						fork = Some((f, w, 0));
					}
				}
			}
			Op::ForkTick => {
				let Some((f, w, j)) = &mut fork else { continue };
				if *j >= case.alt.len() {
					continue;
				}
				let x = &case.alt[*j];
				let of = guarded(|| f.next(x));
				let ow = guarded(|| w.next(x));
				stats.ticks += 1;
				match (of, ow) {
					(Ok(a1), Ok(b1)) => {
						if a1 != b1 {
							mismatch!("C09", "clone_not_independent", pos, "clone taken earlier and fed its own continuation (element {j}) gives {a1:?}; a fresh instance fed the same history gives {b1:?} (original advanced to tick {pos} meanwhile)");
						}
						stats.log(a1.hash());
					}
					(Err(m), _) | (_, Err(m)) => {
						mismatch!("C10", "panic_in_next", pos, "next panicked on the forked replica: {m}");
						fork = None;
						continue;
					}
				}
				*j += 1;
			}
			Op::SerFail(k) => {
				let probe = SerCtl::new(None);
				let Ok(Some(Ok(_))) = guarded(|| s.snapshot(&probe)) else { continue };
				let calls = probe.calls.get().max(1);
				let at = (k as usize) % calls;
				let ctl = SerCtl::new(Some(at));
				stats.fault("storage:ser_error@k");
				events += 1;
				match guarded(|| s.snapshot(&ctl)) {
					Ok(Some(Err(e))) if e.0 == simfmt::INJECTED => {}
					Ok(other) => {
						mismatch!("C13", "ser_error_swallowed", pos, "the serializer failed at call {at} of {calls}; serialize returned {:?}", other.map(|r| r.map(|v| v.render())));
					}
					Err(m) => {
						mismatch!("C13", "ser_error_panics", pos, "the serializer failed at call {at} of {calls}; serialize panicked: {m}");
					}
				}
			}
			Op::Corrupt { kind, arg } => {
				let ctl = SerCtl::new(None);
				let Ok(Some(Ok(tree))) = guarded(|| s.snapshot(&ctl)) else { continue };
				let fname = STORAGE_FAULTS[(kind as usize) % STORAGE_FAULTS.len()];
				let (dam, malformed) = damage(&tree, kind, arg);
				let Some(dam) = dam else {
					stats.probe("damage_not_applicable_or_caught_by_codec");
					continue;
				};
				if dam == tree {
					continue;
				}
				stats.fault(&format!("storage:{fname}"));
				events += 1;
				cov(stats, &format!("corrupt:{fname}"), "");
				match guarded(|| s.restore(&dam)) {
					Err(m) => {
						mismatch!("C13", "corrupt_snapshot_panics", pos, "Deserialize panicked on a damaged snapshot ({fname}, arg {arg}): {m}");
					}
					Ok(Some(Ok(mut r2))) => {
						if malformed {
							vs.push(
								Violation::new("C13", name, "malformed_window_accepted", pos, format!("malformed window data ({fname}) inside a snapshot of {name} was accepted by Deserialize"))
									.tag("length", n)
									.tag("fault", fname),
							);
						} else if fname == "window_nan" && matches!(name, "SMM" | "MedianAbsDev") {
							vs.push(
								Violation::new("C13", name, "nan_window_accepted", pos, "a NaN inside the serialized median window was accepted".into())
									.tag("length", n),
							);
						} else {
							stats.probe("damaged_snapshot_accepted_as_other_valid_instance");
							// nothing is demanded of such an instance; but it must not be *this* replica
							let _ = guarded(|| r2.next(&stream[pos.min(stream.len() - 1)]));
						}
					}
					Ok(Some(Err(_))) => stats.probe("damaged_snapshot_rejected"),
					Ok(None) => {}
				}
			}
		}
	}
	stats.log(events);
	vs
}

// ------------------------------------------------------------------------------------------------
// shrinking of method cases

pub fn shrink_mcase(case: &MCase, min_stream: usize) -> Vec<MCase> {
	let mut v = Vec::new();
	let ns = case.stream.len();
	// drop ops
	let no = case.ops.len();
	if no > 0 {
		let mut c = case.clone();
		c.ops.clear();
		v.push(c);
		if no > 1 {
			let mut c = case.clone();
			c.ops.truncate(no / 2);
			v.push(c);
			let mut c = case.clone();
			c.ops.drain(..no / 2);
			v.push(c);
		}
		for i in (0..no).rev().take(60) {
			let mut c = case.clone();
			c.ops.remove(i);
			v.push(c);
		}
	}
	// shorten the stream from the end, then from the start
	if ns > min_stream {
		for keep in [ns / 2, ns * 3 / 4, ns - 1] {
			if keep >= min_stream && keep < ns {
				let mut c = case.clone();
				c.stream.truncate(keep);
				v.push(c);
			}
		}
		for cut in [ns / 2, ns / 4, 1] {
			if cut > 0 && ns - cut >= min_stream {
				let mut c = case.clone();
				c.stream.drain(..cut);
				v.push(c);
			}
		}
		// drop single elements in the middle (bounded)
		if ns <= 40 {
			for i in 1..ns {
				let mut c = case.clone();
				c.stream.remove(i);
				v.push(c);
			}
		}
	}
	// smaller parameters
	match &case.params {
		Params::Len(n) if *n > 1 => {
			for m in [n / 2, n - 1] {
				if m >= 1 {
					let mut c = case.clone();
					c.params = Params::Len(m);
					v.push(c);
				}
			}
		}
		Params::Two(a, b) => {
			if *a > 1 {
				let mut c = case.clone();
				c.params = Params::Two(a / 2, *b);
				v.push(c);
			}
			if *b > 1 {
				let mut c = case.clone();
				c.params = Params::Two(*a, b / 2);
				v.push(c);
			}
		}
		Params::Weights(w) if w.len() > 1 => {
			let mut c = case.clone();
			c.params = Params::Weights(w[..w.len() / 2].to_vec());
			v.push(c);
		}
		Params::Ma(k, n) if *n > 1 => {
			let mut c = case.clone();
			c.params = Params::Ma(*k, n / 2);
			v.push(c);
		}
		_ => {}
	}
	// simpler values: round to few digits / small integers
	if ns <= 200 {
		let simp = |x: f64, digits: i32| -> f64 {
			if x == 0.0 || !x.is_finite() {
				return x;
			}
			let mag = 10f64.powi(x.abs().log10().floor() as i32 - digits);
			sut::vt((x / mag).round() * mag)
		};
		for digits in [0, 2] {
			let mut c = case.clone();
			let mut changed = false;
			for x in &mut c.stream {
				let new = match *x {
					In::V(a) => In::V(Fx(simp(a.0, digits))),
					In::P(a, b) => In::P(Fx(simp(a.0, digits)), Fx(simp(b.0, digits))),
					o => o,
				};
				if new != *x {
					changed = true;
					*x = new;
				}
			}
			if changed {
				v.push(c);
			}
		}
	}
	v
}

/// draw an operation trace for run B over a stream of `len` ticks
pub fn gen_ops(r: &mut Rng, len: usize, n: u64, peek: bool, serde: bool, storage_faults: bool, forks: bool) -> Vec<Op> {
	let mut ops = Vec::new();
	let mut pos = 0usize;
	let n = n.max(1) as usize;
	let p_batch = 0.3;
	while pos < len {
		let x = r.unit();
		if x < p_batch {
			let k = match r.below(8) {
				0 => 0,
				1 => 1,
				2 => 2,
				3 => n.saturating_sub(1),
				4 => n,
				5 => n + 1,
				_ => r.usize_below(3 * n + 4),
			}
			.min(len - pos);
			ops.push(Op::Batch {
				api: r.below(5) as u8,
				k: k as u32,
			});
			pos += k;
		} else {
			ops.push(Op::Tick);
			pos += 1;
		}
		if peek && r.chance(0.15) {
			ops.push(Op::Peek);
		}
		if serde && r.chance(0.08) {
			ops.push(Op::Snapshot { fmt: r.below(3) as u8 });
		}
		if serde && r.chance(0.06) {
			ops.push(Op::CrashRestore);
		}
		if forks && r.chance(0.04) {
			ops.push(Op::Fork);
		}
		if forks && r.chance(0.3) {
			ops.push(Op::ForkTick);
		}
		if storage_faults && serde && r.chance(0.03) {
			ops.push(Op::SerFail(r.next_u64() as u32));
		}
		if storage_faults && serde && r.chance(0.05) {
			ops.push(Op::Corrupt {
				kind: r.below(STORAGE_FAULTS.len() as u64) as u8,
				arg: r.next_u64() as u32,
			});
		}
	}
	ops
}
