//! C07 — accuracy does not decay with the length of the stream: long simulated time (10^6..10^7 ticks), regime faults
//! anywhere in the past, definitional oracle at late checkpoints with the allowance linear in t, late-joining
//! fresh replica primed with the last window.

use crate::cfgmut;
use crate::common::*;
use crate::feed::{self, FaultCount, FeedCfg};
use crate::ieng;
use crate::meng::{self, MCase, Made};
use crate::refm::{self, RefOut};
use crate::rng::Rng;
use crate::simfmt::Value;
use crate::sut::{self, In, InKind, Out, Params, PMAX, T_ACTION, T_FLOAT, T_INT, T_RESULT};
use crate::tracked::U;
use serde::{Deserialize, Serialize};
use serde_json::json;

#[derive(Clone, Debug, Serialize, Deserialize)]
pub struct Case {
	pub sut: String,
	pub params: Params,
	#[serde(default)]
	pub cfg: Option<Value>,
	/// the stream is regenerated from this seed (10^7 explicit values do not fit a replay file); the generator is
	/// sequential, so a smaller `len` is a prefix of the same stream
	pub feed_seed: u64,
	pub len: u64,
	pub fault_free: bool,
	pub late_points: u32,
	/// 0 = regime feed, 1 = one long one-sided trend with a ripple (counters of consecutive bars / new extremes)
	#[serde(default)]
	pub shape: u8,
}

pub struct C07;

const WINDOWED: &[&str] = &[
	"SMA", "WMA", "SWMA", "TRIMA", "HMA", "LinReg", "Conv", "VWMA", "Integral", "Derivative", "Momentum", "RateOfChange", "Past", "StDev",
	"MeanAbsDev", "MedianAbsDev", "CCI", "LinearVolatility", "ADI", "Highest", "Lowest", "HighestLowestDelta", "HighestIndex",
	"LowestIndex", "SMM", "Cross", "CrossAbove", "CrossUnder", "ReversalSignal", "UpperReversalSignal", "LowerReversalSignal",
];
const RECURSIVE: &[&str] = &["EMA", "DMA", "TMA", "DEMA", "TEMA", "RMA", "WSMA", "TSI", "Vidya", "TR", "HeikinAshi", "Integral0", "ADI0"];
/// indicators whose state depends on a finite window when configured with finite-window averages
const IND_FINITE: &[&str] = &[
	"Aroon", "DonchianChannel", "BollingerBands", "StochasticOscillator", "MomentumIndex", "PriceChannelStrategy",
	"DetrendedPriceOscillator", "KeltnerChannel", "IchimokuCloud", "Envelopes",
];
/// indicators compared through their documented ranges at every step of the long run (ratios of running sums: a fresh
/// replica is no oracle for them near their singular points, see DESIGN.md Corrections) and the recursive SAR
const IND_RECURSIVE: &[&str] = &["ParabolicSAR", "ChandeMomentumOscillator", "MoneyFlowIndex", "RelativeStrengthIndex"];

/// every indicator with a reference model is also run on long streams against that model (values within the tracked
/// bounds, whose drift terms grow linearly with t; signals in three-valued logic with counters of unbounded width).
/// The two indicators with known documentation deviations are left to C05/C06.
pub fn ind_model() -> Vec<&'static str> {
	crate::c05::modelled().into_iter().filter(|n| !matches!(*n, "KeltnerChannel" | "TrendStrengthIndex")).collect()
}

/// long runs of the history wrapper (its buffer grows with the stream)
const HISTORY_RUNS: u64 = 4;

fn model_runs(tier: Tier) -> u64 {
	ind_model().len() as u64 * if tier == Tier::Quick { 12 } else { 36 }
}

fn base_runs(tier: Tier) -> u64 {
	let slots = (WINDOWED.len() + RECURSIVE.len() + IND_FINITE.len() + IND_RECURSIVE.len()) as u64;
	match tier {
		Tier::Quick => slots * 3,
		Tier::Thorough => slots * 6,
	}
}

pub fn regen(case: &Case) -> Vec<In> {
	let r = Rng::new(case.feed_seed);
	let len = case.len as usize;
	let window = (case.params.len().min(5000) as usize).max(1);
	let mut cfg = FeedCfg::swarm(&mut r.sub("feedcfg"), window, case.fault_free);
	cfg.seg = cfg.seg.max(50) * 20; // long regimes: the faults lie far in the past of late positions
	let mut fc = FaultCount::new();
	let name = case.sut.as_str();
	if case.shape == 9 {
		let mut c2 = cfg.clone();
		c2.scale_exp = 0;
		return feed::to_in_vals(&feed::values(&mut r.sub("values"), len, &c2, &mut fc));
	}
	if case.shape >= 4 {
		// model family, stratified: 4 = long flats, 5..=8 = trend (up/down) x (ripple/strictly monotone)
		let cs = match case.shape {
			4 => feed::long_flats(&mut r.sub("values"), len),
			v => feed::trend_ripple_v(&mut r.sub("values"), len, Some((v - 5) % 2 == 0), Some((v - 5) / 2 == 1)),
		};
		return feed::to_in_candles(&cs);
	}
	if case.shape == 1 || case.shape == 3 {
		let cs = feed::trend_ripple(&mut r.sub("values"), len);
		return match (case.cfg.is_some(), sut::method(name.trim_end_matches('0')).map(|i| i.input)) {
			(true, _) | (_, Some(InKind::Candle)) => feed::to_in_candles(&cs),
			(_, Some(InKind::Pair)) => cs.iter().map(|c| In::p(c[3], c[4])).collect(),
			_ => cs.iter().map(|c| In::v(c[3])).collect(),
		};
	}
	if case.cfg.is_some() {
		cfg.scale_exp = cfg.scale_exp.clamp(-3, 3);
		return feed::to_in_candles(&feed::candles(&mut r.sub("values"), len, &cfg, &mut fc));
	}
	let info = sut::method(name.trim_end_matches('0')).expect("method");
	match info.input {
		InKind::Val => {
			if name == "RateOfChange" {
				cfg.signed = false;
				cfg.integer = false;
			}
			feed::to_in_vals(&feed::values(&mut r.sub("values"), len, &cfg, &mut fc))
		}
		InKind::Pair => {
			let a = feed::values(&mut r.sub("values"), len, &cfg, &mut fc);
			let mut c2 = cfg.clone();
			if name == "VWMA" {
				c2.signed = false;
				c2.integer = false;
			}
			let b = feed::values(&mut r.sub("second"), len, &c2, &mut fc);
			a.iter().zip(b).map(|(x, y)| In::p(*x, y)).collect()
		}
		InKind::Candle => {
			cfg.scale_exp = cfg.scale_exp.clamp(-3, 3);
			feed::to_in_candles(&feed::candles(&mut r.sub("values"), len, &cfg, &mut fc))
		}
	}
}

/// `WithHistory`: after any number of outputs `get(k)` is the output k steps ago (None beyond the first one) and `iter()`
/// yields every output, oldest first
fn history_run(case: &Case, stream: &[In], stats: &mut Stats) -> Vec<Violation> {
	use yata::core::{Method, ValueType};
	use yata::helpers::WithHistory;
	use yata::methods::{EMA, SMA};
	enum H {
		S(WithHistory<SMA, ValueType>),
		E(WithHistory<EMA, ValueType>),
	}
	let n = case.params.len() as yata::core::PeriodType;
	let x0 = stream[0].val() as ValueType;
	let mut h = if case.sut.contains("SMA") {
		match WithHistory::<SMA, ValueType>::new(n, &x0) {
			Ok(h) => H::S(h),
			Err(_) => return Vec::new(),
		}
	} else {
		match WithHistory::<EMA, ValueType>::new(n, &x0) {
			Ok(h) => H::E(h),
			Err(_) => return Vec::new(),
		}
	};
	stats.suts.insert(case.sut.clone());
	stats.cover(format!("{}|history|len~1e{}", case.sut, (stream.len() as f64).log10().round() as u32));
	let mut rec: Vec<ValueType> = Vec::with_capacity(stream.len());
	let mut vs = Vec::new();
	for (t, x) in stream.iter().enumerate() {
		let xv = x.val() as ValueType;
		let o = match &mut h {
			H::S(h) => h.next(&xv),
			H::E(h) => h.next(&xv),
		};
		rec.push(o);
		stats.ticks += 1;
		let len = rec.len();
		let check = len % 8192 == 0 || (254..=258).contains(&len) || (65_534..=65_540).contains(&len) || (131_070..=131_075).contains(&len) || len == stream.len();
		if !check {
			continue;
		}
		stats.fault("observer:history_lookback");
		for k in [0usize, 1, 2, 255, 256, 257, 1000, 32_767, 32_768, 65_535, 65_536, len - 1, len, len + 1] {
			let got = match &h {
				H::S(h) => h.get(k),
				H::E(h) => h.get(k),
			};
			let want = len.checked_sub(k + 1).map(|i| rec[i]);
			stats.checked += 1;
			if got.map(ValueType::to_bits) != want.map(ValueType::to_bits) {
				vs.push(
					Violation::new("C07", &case.sut, "history_lookback", t, format!("after {len} outputs get({k}) = {got:?}, the output {k} steps ago was {want:?}"))
						.tag("length", case.params.len())
						.tag("position_decade", format!("1e{}", (t as f64).max(1.0).log10().floor() as u32))
						.tag("beyond_1e6", "no"),
				);
				return vs;
			}
		}
		let (cnt, first, last) = match &h {
			H::S(h) => (h.iter().count(), h.iter().next().copied(), h.iter().last().copied()),
			H::E(h) => (h.iter().count(), h.iter().next().copied(), h.iter().last().copied()),
		};
		if cnt != len || first.map(ValueType::to_bits) != Some(rec[0].to_bits()) || last.map(ValueType::to_bits) != Some(rec[len - 1].to_bits()) {
			vs.push(
				Violation::new("C07", &case.sut, "history_iter", t, format!("after {len} outputs iter() yields {cnt} values from {first:?} to {last:?}; produced: {len} values from {:?} to {:?}", rec[0], rec[len - 1]))
					.tag("length", case.params.len())
					.tag("position_decade", format!("1e{}", (t as f64).max(1.0).log10().floor() as u32))
					.tag("beyond_1e6", "no"),
			);
			return vs;
		}
	}
	vs
}

fn mcase(case: &Case, stream: Vec<In>) -> MCase {
	MCase {
		sut: case.sut.trim_end_matches('0').to_string(),
		params: case.params.clone(),
		stream,
		alt: vec![],
		ops: vec![],
		feed_faults: Default::default(),
		first_chunk: 0,
		cfg: case.cfg.clone(),
	}
}

fn magnitude(x: &In, candle: bool) -> f64 {
	if candle {
		let c = x.candle_f64();
		c.iter().fold(0.0f64, |m, v| m.max(v.abs())).max((c[1] + c[2] + c[3]).abs() / 3.0 * c[4].abs())
	} else {
		let p = x.pair();
		p.0.abs().max(p.1.abs()).max((p.0 * p.1).abs())
	}
}

/// late-join comparison of two real replicas: exact for selections / indices / signals, allowance linear in t for arithmetic
fn agree(name: &str, a: &Out, b: &Out, n: f64, t: f64, m: f64, extra: f64) -> Result<(), String> {
	// `extra`: twice the bound of the tracked reference at this step when there is one (both replicas lie within it);
	// indicators built on StDev: the allowance lives in variance space, its square root in the output
	let sd = if name == "BollingerBands" { 10.0 * m * (2048.0 * U * (n + t)).sqrt() } else { 0.0 };
	let tol = extra + sd + 2048.0 * U * (n + t) * m * if matches!(name, "Integral" | "ADI" | "LinearVolatility") { n.max(1.0) } else { 1.0 };
	let close = |x: f64, y: f64| -> bool { x == y || (x.is_nan() && y.is_nan()) || (x - y).abs() <= tol || (x - y).abs() <= 1e-9 * x.abs().max(y.abs()) };
	match a.tag {
		T_FLOAT => {
			let (x, y) = (a.f(0), b.f(0));
			let exact = matches!(name, "Highest" | "Lowest" | "HighestLowestDelta" | "SMM" | "Past");
			let ok = if exact {
				x == y
			} else if name == "StDev" {
				(x * x - y * y).abs() <= 2.0 * tol * m || close(x, y)
			} else {
				close(x, y)
			};
			if ok {
				Ok(())
			} else {
				Err(format!("{x:e} vs {y:e} (allowance {:e})", if exact { 0.0 } else { tol }))
			}
		}
		T_INT | T_ACTION => {
			if a.w[0] == b.w[0] || (a.tag == T_ACTION && a.action(0) == b.action(0)) {
				Ok(())
			} else {
				Err(format!("{a:?} vs {b:?}"))
			}
		}
		T_RESULT => {
			let nv = a.w[0] as usize;
			let ns = a.w[1] as usize;
			let mut same = true;
			for i in 0..nv {
				let (x, y) = (a.f(2 + i), b.f(2 + i));
				if !close(x, y) {
					return Err(format!("value {i}: {x:e} vs {y:e} (allowance {tol:e})"));
				}
				if a.w[2 + i] != b.w[2 + i] || x.is_nan() || (x != 0.0 && x.abs() <= tol) {
					same = false;
				}
			}
			// signals of indicators may depend on latches set arbitrarily far in the past (last emitted signal,
			// consecutive-bar counters): only raw values are compared here, signals belong to C06
			let _ = ns;
			if false && same {
				for i in 0..ns {
					if a.action(2 + nv + i) != b.action(2 + nv + i) {
						return Err(format!("signal {i}: {:?} vs {:?}", a.action(2 + nv + i), b.action(2 + nv + i)));
					}
				}
			}
			Ok(())
		}
		_ => {
			for i in 0..a.n as usize {
				if !close(a.f(i), b.f(i)) {
					return Err(format!("{a:?} vs {b:?}"));
				}
			}
			Ok(())
		}
	}
}

impl Check for C07 {
	type Case = Case;
	fn id(&self) -> &'static str {
		"C07"
	}
	fn runs(&self, tier: Tier) -> u64 {
		base_runs(tier) + ind_model().len() as u64 * if tier == Tier::Quick { 12 } else { 36 } + HISTORY_RUNS
	}
	fn generate(&self, root: &Rng, i: u64, tier: Tier) -> Case {
		if i >= base_runs(tier) + model_runs(tier) {
			let run = root.sub_i("run", i);
			let mut r = run.sub("config");
			let j = i - base_runs(tier) - model_runs(tier);
			return Case {
				sut: if j % 2 == 0 { "WithHistory<SMA>".into() } else { "WithHistory<EMA>".into() },
				params: Params::Len(2 + r.below(20)),
				cfg: None,
				feed_seed: run.sub("feed").next_u64(),
				len: if tier == Tier::Quick { 70_000 + r.below(70_000) } else { 140_000 + r.below(200_000) },
				fault_free: true,
				late_points: 0,
				shape: 9,
			};
		}
		if i >= base_runs(tier) {
			// model family: (indicator, configuration, long regime feed | long one-sided trend)
			let names = ind_model();
			let j = i - base_runs(tier);
			let name = names[(j % names.len() as u64) as usize];
			let k = j / names.len() as u64;
			let run = root.sub_i("run", i);
			let mut r = run.sub("config");
			let info = ieng::indicator(name).unwrap();
			let def = (info.default_cfg)();
			let first = In::c(100.0, 101.0, 99.0, 100.5, 1000.0);
			let mut chosen = def.clone();
			if k >= 6 || r.chance(0.5) {
				for _ in 0..12 {
					let c = cfgmut::mutate(&def, &mut r, 0.5, 60, None);
					if matches!(guarded(|| (info.validate)(&c)), Ok(Ok(true))) && matches!(guarded(|| (info.make)(&c, &first)), Ok(Ok(_))) {
						chosen = c;
						break;
					}
				}
			}
			let len = if tier == Tier::Quick { 70_000 + r.below(50_000) } else { 150_000 + r.below(250_000) };
			return Case {
				sut: name.to_string(),
				params: Params::Len(cfgmut::max_period_in(&chosen)),
				cfg: Some(chosen),
				feed_seed: run.sub("feed").next_u64(),
				len,
				fault_free: k % 4 == 3,
				late_points: 0,
				// regime stream, long flats, and the four trend variants (up/down x ripple/strictly monotone) in turn
				shape: [2u8, 4, 5, 6, 7, 8][(k % 6) as usize],
			};
		}
		let slots = WINDOWED.len() + RECURSIVE.len() + IND_FINITE.len() + IND_RECURSIVE.len();
		let s = (i % slots as u64) as usize;
		let k = i / slots as u64;
		let run = root.sub_i("run", i);
		let mut r = run.sub("config");
		let name: &str = if s < WINDOWED.len() {
			WINDOWED[s]
		} else if s < WINDOWED.len() + RECURSIVE.len() {
			RECURSIVE[s - WINDOWED.len()]
		} else if s < WINDOWED.len() + RECURSIVE.len() + IND_FINITE.len() {
			IND_FINITE[s - WINDOWED.len() - RECURSIVE.len()]
		} else {
			IND_RECURSIVE[s - WINDOWED.len() - RECURSIVE.len() - IND_FINITE.len()]
		};
		let is_ind = s >= WINDOWED.len() + RECURSIVE.len();
		// simulated time: quick 10^6 per SUT (first run) and a shorter second run; thorough 10^7 for the first run of every SUT
		let len: u64 = match (tier, k) {
			(Tier::Quick, 0) => 2_000_000,
			(Tier::Quick, _) => 150_000 + r.below(100_000),
			(Tier::Thorough, 0) => 10_000_000,
			(Tier::Thorough, 1) => 30_000_000,
			(Tier::Thorough, _) => 200_000 + r.below(800_000),
		};
		let len = if is_ind { len / 10 * if tier == Tier::Thorough { 1 } else { 2 } } else { len };
		let len = if k == 1 { len.clamp(70_000, 400_000) } else { len };
		let (params, cfg) = if is_ind {
			let info = ieng::indicator(name).unwrap();
			let def = (info.default_cfg)();
			let first = In::c(100.0, 101.0, 99.0, 100.5, 1000.0);
			let mut chosen = def.clone();
			for _ in 0..12 {
				// finite-window averages only (kind index 0 = sma, 1 = wma, 11 = swma, 12 = trima)
				let kind = [0usize, 1, 11, 12][r.usize_below(4)];
				let c = cfgmut::mutate(&def, &mut r, 0.5, 40, Some(kind));
				if matches!(guarded(|| (info.validate)(&c)), Ok(Ok(true))) && matches!(guarded(|| (info.make)(&c, &first)), Ok(Ok(_))) {
					chosen = c;
					break;
				}
			}
			if chosen == def {
				chosen = cfgmut::mutate(&def, &mut r, 0.0, 40, Some(0));
			}
			(Params::Len(cfgmut::max_period_in(&chosen)), Some(chosen))
		} else {
			let base = name.trim_end_matches('0');
			let info = sut::method(base).unwrap();
			let mut p = meng::gen_params(&info, &mut r, Tier::Quick, k + i, false);
			if name.ends_with('0') {
				p = Params::Len(0);
			} else if matches!(base, "Integral" | "ADI") && p == Params::Len(0) {
				p = Params::Len(7);
			}
			if name == "Vidya" {
				p = Params::Len(1 + r.below(16));
			}
			// keep windows moderate in long runs (the reference is O(n) per checkpoint step)
			if let Params::Len(n) = p {
				if n > 120 && r.chance(0.7) {
					p = Params::Len(2 + n % 60);
				}
			}
			(p, None)
		};
		Case {
			sut: name.to_string(),
			params,
			cfg,
			feed_seed: run.sub("feed").next_u64(),
			len,
			fault_free: k % 3 == 2,
			late_points: if tier == Tier::Quick { 60 } else { 300 },
			// the second run of every SUT is the long one-sided trend (at least 70 000 bars: beyond a 16-bit counter)
			shape: u8::from(k == 1),
		}
	}
	fn execute(&self, case: &Case, stats: &mut Stats) -> Vec<Violation> {
		let mut vs = Vec::new();
		let stream = regen(case);
		let len = stream.len();
		if len < 10 {
			return vs;
		}
		let name = case.sut.as_str();
		if case.shape == 9 {
			return history_run(case, &stream, stats);
		}
		if case.shape >= 2 {
			let mc = mcase(case, stream);
			let shape_name = match case.shape {
				2 => "regimes",
				4 => "long_flats",
				5 => "trend_up_ripple",
				6 => "trend_down_ripple",
				7 => "trend_up_monotone",
				8 => "trend_down_monotone",
				_ => "trend",
			};
			stats.fault(&format!("feed:long_{shape_name}"));
			stats.cover(format!("{name}|model|{shape_name}|len~1e{}", (len as f64).log10().round() as u32));
			// averages that feed one running accumulator into a second one at every step (WMA, SWMA, LinReg, and HMA as a
			// cascade of WMAs): their rounding drift grows faster than linearly (DESIGN.md §3.2, known finding)
			let kinds = case.cfg.as_ref().map(cfgmut::ma_kinds_in).unwrap_or_default();
			let double_acc = name == "HullMovingAverage" || kinds.iter().any(|k| matches!(k.as_str(), "wma" | "hma" | "swma" | "lin_reg"));
			let mut found: Vec<Violation> = crate::c05::refine("C07", &mc, stats, true, true)
				.into_iter()
				.map(|v| {
					let t = v.step;
					v.tag("length", case.params.len())
						.tag("position_decade", format!("1e{}", (t as f64).max(1.0).log10().floor() as u32))
						.tag("beyond_1e6", "no")
						.tag("oracle", "reference_model")
						.tag("double_accumulator_average", if double_acc { "yes" } else { "no" })
				})
				.collect();
			// once a value of such a configuration has left its bound, signals derived from it are not judged any more
			if double_acc {
				if let Some(first) = found.iter().filter(|v| v.predicate.starts_with("value_")).map(|v| v.step).min() {
					found.retain(|v| !(v.predicate.starts_with("signal_") && v.step >= first));
				}
			}
			return found;
		}
		let base = name.trim_end_matches('0');
		stats.suts.insert(name.to_string());
		let mc = mcase(case, Vec::new());
		let Some(f) = meng::factory(&mc) else { return vs };
		let n = case.params.len() as usize;
		let nf = n as f64;
		let is_ind = case.cfg.is_some();
		let candle = is_ind || matches!(stream[0], In::C(_));
		let recursive = RECURSIVE.contains(&name) || IND_RECURSIVE.contains(&name);
		// memory depth to prime a late-joining replica / a late reference
		let depth = if is_ind { 6 * n + 40 } else { 3 * n + 12 };
		let span = n + 8;
		// ---- checkpoints: intervals [a, b) of steps at which the oracle is evaluated
		let mut pts: Vec<usize> = Vec::new();
		for j in 1..=64usize {
			pts.push(j * 256);
		}
		let mut q = 65_536usize;
		while q < len {
			pts.push(q);
			q += 65_536;
		}
		for d in [0usize, 1, 2] {
			pts.push((PMAX as usize).saturating_sub(1) + d);
		}
		let mut rp = Rng::new(case.feed_seed).sub("late");
		for _ in 0..case.late_points {
			pts.push(len / 2 + rp.usize_below(len / 2));
		}
		pts.push(len - span - 1);
		pts.retain(|p| *p > depth + span + 2000 && *p + span < len);
		pts.sort_unstable();
		pts.dedup();
		let mut intervals: Vec<(usize, usize)> = Vec::new();
		for p in pts {
			let (a, b) = (p - span, p + span);
			match intervals.last_mut() {
				Some(l) if a <= l.1 + depth => l.1 = l.1.max(b),
				_ => intervals.push((a, b)),
			}
		}
		stats.cover(format!("{name}|{}|len~1e{}", meng::len_class(n as u64), (len as f64).log10().round() as u32));
		let Made::Ok(mut inst) = meng::construct(&f, &stream[0]) else { return vs };
		// reference from the start for the first 2000 steps (all kinds) and for the whole run (recursive kinds)
		let mut ref_full = if is_ind { None } else { refm::make_ref(base, &case.params, &stream[0]) };
		let mut m_hist = 0.0f64;
		let mut iv = 0usize;
		// late replicas: (reference, fresh real instance, priming started at)
		let mut late_ref: Option<Box<dyn refm::RefM>> = None;
		let mut late_inst: Option<Box<dyn sut::Sut>> = None;
		let mut late_ready = false;
		macro_rules! fail {
			($pred:expr, $t:expr, $($arg:tt)*) => {{
				vs.push(
					Violation::new("C07", name, $pred, $t, format!($($arg)*))
						.tag("length", n)
						.tag("position_decade", format!("1e{}", ($t as f64).max(1.0).log10().floor() as u32))
						.tag("beyond_1e6", if $t >= 1_000_000 { "yes" } else { "no" }),
				);
				return vs;
			}};
		}
		for t in 0..len {
			let x = &stream[t];
			m_hist = m_hist.max(magnitude(x, candle));
			let out = match guarded(|| inst.next(x)) {
				Ok(o) => o,
				Err(p) => fail!("panic_after_long_prefix", t, "next() panicked at tick {t}: {p}"),
			};
			stats.ticks += 1;
			if t % 4096 == 0 {
				stats.log(out.hash());
			}
			if is_ind && recursive {
				let c = x.candle_f64();
				let bad = match name {
					"ParabolicSAR" => {
						let (sar, trend) = (out.f(2), out.f(3));
						(trend > 0.0 && !(sar <= c[2])) || (trend < 0.0 && !(sar >= c[1]))
					}
					"ChandeMomentumOscillator" => !(out.f(2) >= -1.0 - 1e-9 && out.f(2) <= 1.0 + 1e-9),
					"MoneyFlowIndex" => !(out.f(3) >= -1e-9 && out.f(3) <= 1.0 + 1e-9),
					_ => !(out.f(2) >= -1e-9 && out.f(2) <= 1.0 + 1e-9),
				};
				stats.checked += 1;
				if bad {
					fail!("documented_range_at_late_position", t, "after {t} ticks: {out:?} on candle {c:?}");
				}
			}
			// full reference: first 2000 steps, and every step for recursive kinds
			if let Some(r) = ref_full.as_mut() {
				if recursive || t < 2000 {
					let want = r.next(x);
					match refm::compare(&out, &want) {
						Ok(true) => stats.checked += 1,
						Ok(false) => stats.exempt += 1,
						Err(d) => fail!("definition_at_position", t, "position {t}: {d}"),
					}
				} else if t == 2000 {
					ref_full = None;
				}
			}
			if recursive || iv >= intervals.len() {
				continue;
			}
			let (a, b) = intervals[iv];
			// priming phase of the late replicas
			if t + depth == a || (t == 0 && a <= depth) {
				late_ref = if is_ind { None } else { refm::make_ref(base, &case.params, x) };
				late_inst = match meng::construct(&f, x) {
					Made::Ok(s) => Some(s),
					_ => None,
				};
				late_ready = false;
				stats.fault("late_join");
			}
			if t + depth >= a && t < b {
				let in_window = t >= a;
				if in_window && !late_ready {
					if let Some(r) = late_ref.as_mut() {
						r.set_history(t as f64, m_hist);
					}
					late_ready = true;
				}
				let mut undefined_step = false;
				let mut ref_bound = 0.0f64;
				if let Some(r) = late_ref.as_mut() {
					let want = r.next(x);
					if let RefOut::Arith(tv) | RefOut::Var(tv) = &want {
						undefined_step = tv.und();
						if !tv.und() {
							ref_bound = 2.0 * tv.e;
						}
					}
					if in_window {
						if late_ready {
							// keep the history counters current
							r.set_history(t as f64, m_hist);
						}
						if let RefOut::Arith(tv) = &want {
							let u = r.unit();
							if u > 0.0 && !tv.und() {
								stats.maximum(&format!("{name}@1e{}", (t as f64).log10().floor() as u32), (out.f(0) - tv.v).abs() / u);
							}
						}
						match refm::compare(&out, &want) {
							Ok(true) => stats.checked += 1,
							Ok(false) => stats.exempt += 1,
							Err(d) => fail!("definition_at_late_position", t, "after {t} ticks: {d}"),
						}
					}
				}
				if let Some(s) = late_inst.as_mut() {
					match guarded(|| s.next(x)) {
						Ok(o2) => {
							if in_window && undefined_step {
								stats.exempt += 1;
							} else if in_window {
								match agree(base, &out, &o2, nf, t as f64, m_hist, ref_bound) {
									Ok(()) => stats.checked += 1,
									Err(_) if {
										// conditioning test: a fresh replica primed with the same window perturbed by a few ulp
										let from = a.saturating_sub(depth);
										let pert: Vec<In> = stream[from..=t].iter().map(crate::c08::perturb).collect();
										match meng::run_a(&f, &pert) {
											Ok(op) => agree(base, &o2, op.last().unwrap(), nf, t as f64, m_hist, ref_bound).is_err(),
											Err(_) => true,
										}
									} =>
									{
										stats.exempt += 1;
										stats.probe("ill_conditioned_step_exempt");
									}
									Err(_) if {
										// singular point of a ratio of running sums: the fresh replica, whose sums are exact, returns
										// the formula's guard value (denominator exactly zero: 0, 0.5 or NaN) while the long-running
										// instance divides rounding residue - the tracked algebra of DESIGN.md §3.3 calls this step
										// undefined (no equality demanded; the range monitors of C12 still apply)
										let guard = |o: &Out| -> bool {
											let (from, to) = if o.tag == T_RESULT { (2, 2 + o.w[0] as usize) } else { (0, o.n as usize) };
											(from..to).any(|i| {
												let v = o.f(i);
												v == 0.0 || v == 0.5 || v.is_nan()
											})
										};
										o2.tag != T_INT && o2.tag != T_ACTION && (guard(&o2) || guard(&out)) && matches!(base, "CCI" | "RateOfChange" | "VWMA" | "TSI" | "CommodityChannelIndex" | "WoodiesCCI" | "RelativeStrengthIndex" | "MoneyFlowIndex" | "ChaikinMoneyFlow" | "ChandeMomentumOscillator" | "StochasticOscillator" | "BollingerBands")
									} =>
									{
										stats.exempt += 1;
										stats.probe("singular_point_of_a_ratio_exempt");
									}
									Err(d) => {
										let w = n.max(1).min(t);
										let flat = (t + 2 - w..=t).all(|j| j == 0 || stream[j].words()[..4] == stream[j - 1].words()[..4]);
										vs.push(
											Violation::new("C07", name, "fresh_primed_replica_disagrees", t, format!("after {t} ticks the long-running instance and a fresh instance primed with the last {depth} inputs differ: {d}"))
												.tag("length", n)
												.tag("flat_window", if flat { "yes" } else { "no" })
												.tag("beyond_1e6", if t >= 1_000_000 { "yes" } else { "no" }),
										);
										return vs;
									}
								}
							}
						}
						Err(_) => late_inst = None,
					}
				}
			}
			if t + 1 == b {
				iv += 1;
				late_ref = None;
				late_inst = None;
			}
		}
		stats.probe_n("late_checkpoint_intervals", intervals.len() as u64);
		vs
	}
	fn shrink(&self, case: &Case) -> Vec<Case> {
		let mut v = Vec::new();
		for l in [case.len / 2, case.len * 3 / 4, case.len * 9 / 10] {
			if l >= 5000 && l < case.len {
				let mut c = case.clone();
				c.len = l;
				v.push(c);
			}
		}
		if case.late_points > 4 {
			let mut c = case.clone();
			c.late_points /= 2;
			v.push(c);
		}
		v
	}
	fn rule(&self) -> String {
		"One evaluation = one long run of a real instance (quick: 10^6 ticks for the first run of every method, 10^5 for indicators; thorough: 10^7 / 10^6) on a seeded \
		 regime stream with long regimes (volatile, flat, scale jumps far in the past). Oracles: (a) the from-scratch definition at every step of the first 2000 and, through a \
		 reference primed with the last window and told the true (t, M_history), in windows of +-(n+8) steps around multiples of 2^8 (first 64), every multiple of 2^16, \
		 PeriodType::MAX-1..MAX+1, 60/300 seeded late positions and the end of the run - exact for selections, indices and signals, allowance D(t) = c_m*u*(n+t)*S linear in t for \
		 arithmetic; recursive kinds are compared with their free-running recurrence at every step; (b) late join: a fresh real instance created from the input `depth` steps \
		 before each checkpoint and fed the last window must agree with the long-running one (finite-window methods and indicators configured with finite-window averages). \
		 (c) model family: every indicator that has a reference model (all but the two with documented deviations) is run for 7*10^4..4*10^5 candles - a long regime stream or one \
		 long one-sided trend with a ripple (thousands of consecutive same-side pivots / bars in a zone) - against that model at every step: values within the tracked bounds, \
		 signals in three-valued logic with counters of unbounded width; a panic after a long prefix is a violation. \
		 Coverage tuple = (SUT, length class, decade of the run length). The stream is regenerated from the recorded feed seed (the generator is sequential: shrinking the \
		 length keeps the prefix)."
			.into()
	}
	fn assumptions(&self) -> Vec<String> {
		vec![
			"replay files carry the feed seed and length instead of 10^6..10^7 explicit values; the generator is a pure function of them".into(),
			"late join compares indicators with a fresh primed replica; the model family (c) reuses the reference indicators of C05/C06 on long streams".into(),
		]
	}
	fn components(&self) -> serde_json::Value {
		json!({"real": ["31 finite-window / detector methods, 13 recursive methods, 18 indicators"], "stub": ["long regime feed", "late reference models with injected history", "late-joining replica"]})
	}
	fn sample_limit(&self) -> usize {
		3
	}
}
