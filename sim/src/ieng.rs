//! Indicator adapters: every yata indicator behind the same `Sut` trait as the methods, constructed from a
//! *configuration value tree* (the serialized form of its config), so that parameters are reachable generically.

use crate::simfmt::{self, SerCtl, SimErr, Value};
use crate::sut::{In, IntoOut, Out, Sut};
use serde::de::DeserializeOwned;
use serde::Serialize;
use yata::core::{
	Candle, IndicatorConfig, IndicatorConfigDyn, IndicatorInstance, IndicatorInstanceDyn, IndicatorResult,
};
use yata::indicators::*;

pub struct IW<C: IndicatorConfig> {
	pub inst: C::Instance,
}
pub struct IWN<C: IndicatorConfig> {
	pub inst: C::Instance,
}

fn ind_batch<I: IndicatorInstance + Clone + 'static>(inst: &mut I, api: u8, xs: &[In]) -> Option<Vec<Out>> {
	let cs: Vec<Candle> = xs.iter().map(In::candle).collect();
	match api {
		0 => Some(IndicatorInstance::over(inst, &cs[..]).into_iter().map(IntoOut::into_out).collect()),
		1 => Some(IndicatorInstance::over(inst, cs).into_iter().map(IntoOut::into_out).collect()),
		2 => Some(
			IndicatorInstanceDyn::<Candle>::over(inst, &cs)
				.into_iter()
				.map(IntoOut::into_out)
				.collect(),
		),
		4 => {
			let outs: Vec<Out> = {
				let mut f = inst.clone().into_fn::<Candle>();
				cs.iter().map(|c| f(c).into_out()).collect()
			};
			for c in &cs {
				IndicatorInstance::next(inst, c);
			}
			Some(outs)
		}
		_ => None,
	}
}

impl<C> Sut for IW<C>
where
	C: IndicatorConfig + 'static,
	C::Instance: Clone + std::fmt::Debug + Serialize + DeserializeOwned + 'static,
{
	fn next(&mut self, x: &In) -> Out {
		IndicatorInstance::next(&mut self.inst, &x.candle()).into_out()
	}
	fn peek(&self) -> Option<Out> {
		None
	}
	fn fork(&self) -> Box<dyn Sut> {
		Box::new(IW::<C> { inst: self.inst.clone() })
	}
	fn fork_into(&self, mut other: Box<dyn Sut>) -> Box<dyn Sut> {
		if let Some(o) = other.as_any_mut().and_then(|a| a.downcast_mut::<IW<C>>()) {
			o.inst.clone_from(&self.inst);
			return other;
		}
		self.fork()
	}
	fn as_any_mut(&mut self) -> Option<&mut dyn std::any::Any> {
		Some(self)
	}
	fn snapshot(&self, ctl: &SerCtl) -> Option<Result<Value, SimErr>> {
		Some(simfmt::to_value_ctl(&self.inst, ctl))
	}
	fn restore(&self, v: &Value) -> Option<Result<Box<dyn Sut>, String>> {
		Some(
			simfmt::from_value::<C::Instance>(v)
				.map(|inst| Box::new(IW::<C> { inst }) as Box<dyn Sut>)
				.map_err(|e| e.0),
		)
	}
	fn json_roundtrip(&self) -> Option<Result<Box<dyn Sut>, String>> {
		let s = match serde_json::to_string(&self.inst) {
			Ok(s) => s,
			Err(e) => return Some(Err(format!("to_string: {e}"))),
		};
		Some(
			serde_json::from_str::<C::Instance>(&s)
				.map(|inst| Box::new(IW::<C> { inst }) as Box<dyn Sut>)
				.map_err(|e| format!("from_str: {e}")),
		)
	}
	fn batch(&mut self, api: u8, xs: &[In]) -> Option<Vec<Out>> {
		ind_batch(&mut self.inst, api, xs)
	}
	fn debug(&self) -> String {
		format!("{:?}", self.inst)
	}
}

impl<C> Sut for IWN<C>
where
	C: IndicatorConfig + 'static,
	C::Instance: Clone + std::fmt::Debug + 'static,
{
	fn next(&mut self, x: &In) -> Out {
		IndicatorInstance::next(&mut self.inst, &x.candle()).into_out()
	}
	fn peek(&self) -> Option<Out> {
		None
	}
	fn fork(&self) -> Box<dyn Sut> {
		Box::new(IWN::<C> { inst: self.inst.clone() })
	}
	fn snapshot(&self, _ctl: &SerCtl) -> Option<Result<Value, SimErr>> {
		None
	}
	fn restore(&self, _v: &Value) -> Option<Result<Box<dyn Sut>, String>> {
		None
	}
	fn json_roundtrip(&self) -> Option<Result<Box<dyn Sut>, String>> {
		None
	}
	fn batch(&mut self, api: u8, xs: &[In]) -> Option<Vec<Out>> {
		ind_batch(&mut self.inst, api, xs)
	}
	fn debug(&self) -> String {
		format!("{:?}", self.inst)
	}
}

/// what `set(name, text)` did
pub struct SetOutcome {
	pub result: Result<(), String>,
	pub after: Value,
	pub valid_after: bool,
}

pub struct IndInfo {
	pub name: &'static str,
	pub inst_serde: bool,
	pub default_cfg: fn() -> Value,
	/// Err(text) when the tree does not deserialize into the config type
	pub validate: fn(&Value) -> Result<bool, String>,
	pub size: fn(&Value) -> Result<(u8, u8), String>,
	/// (NAME const, cfg.name(), dyn cfg name())
	pub names: fn(&Value) -> Result<(String, String, String), String>,
	pub make: fn(&Value, &In) -> Result<Box<dyn Sut>, String>,
	pub set: fn(&Value, &str, &str) -> Result<SetOutcome, String>,
	pub set_dyn: fn(&Value, &str, &str) -> Result<SetOutcome, String>,
	/// IndicatorConfig::over on the whole stream
	pub cfg_over: fn(&Value, &[In]) -> Result<Vec<Out>, String>,
	/// init_fn closure on the whole stream
	pub cfg_init_fn: fn(&Value, &[In]) -> Result<Vec<Out>, String>,
	/// through Box<dyn IndicatorConfigDyn<Candle>>: init + next per element, then instance-level (size, name)
	pub dyn_ticks: fn(&Value, &[In]) -> Result<(Vec<Out>, (u8, u8), String, (u8, u8), bool), String>,
	/// dyn config over()
	pub dyn_over: fn(&Value, &[In]) -> Result<Vec<Out>, String>,
	/// dyn instance over() in chunks
	pub dyn_inst_over: fn(&Value, &[In], usize) -> Result<Vec<Out>, String>,
	/// instance-level size()/name() of the static instance
	pub inst_meta: fn(&Value, &In) -> Result<((u8, u8), String), String>,
	/// config -> tree -> config -> tree (+ Debug text before/after)
	pub cfg_roundtrip: fn(&Value) -> Result<(Value, String, String), String>,
	pub cfg_json_roundtrip: fn(&Value) -> Result<(Value, String, String), String>,
	/// the accessors of every IndicatorResult of a static run agree with each other: Some(first discrepancy)
	pub accessors: fn(&Value, &[In]) -> Result<Option<String>, String>,
}

/// size(), values_length(), signals_length(), values(), signals(), value(i), signal(i) of one result describe the same
/// thing; an index at or beyond the respective length panics (documented)
pub fn result_accessors(t: usize, r: &IndicatorResult) -> Option<String> {
	let (nv, ns) = (r.values().len(), r.signals().len());
	if r.size() != (nv as u8, ns as u8) || r.values_length() as usize != nv || r.signals_length() as usize != ns {
		return Some(format!("result {t}: size() {:?}, values_length {}, signals_length {}, slices {nv}/{ns}", r.size(), r.values_length(), r.signals_length()));
	}
	for i in 0..4usize {
		let v = crate::common::guarded(|| r.value(i));
		match (i < nv, v) {
			(true, Ok(x)) if x.to_bits() == r.values()[i].to_bits() => {}
			(false, Err(_)) => {}
			(inside, got) => return Some(format!("result {t}: value({i}) gives {got:?} ({} values; index {})", nv, if inside { "in range" } else { "out of range: must panic" })),
		}
		let a = crate::common::guarded(|| r.signal(i));
		match (i < ns, a) {
			(true, Ok(x)) if x == r.signals()[i] => {}
			(false, Err(_)) => {}
			(inside, got) => return Some(format!("result {t}: signal({i}) gives {got:?} ({} signals; index {})", ns, if inside { "in range" } else { "out of range: must panic" })),
		}
	}
	None
}

fn cfg_of<C: DeserializeOwned>(v: &Value) -> Result<C, String> {
	simfmt::from_value::<C>(v).map_err(|e| format!("configuration tree rejected: {e}"))
}
fn candles(xs: &[In]) -> Vec<Candle> {
	xs.iter().map(In::candle).collect()
}
fn outs(v: Vec<IndicatorResult>) -> Vec<Out> {
	v.into_iter().map(IntoOut::into_out).collect()
}

macro_rules! ind {
	($name:literal, $c:ty, $wrap:ident, $serde:expr) => {{
		type C = $c;
		fn default_cfg() -> Value {
			simfmt::to_value(&<C as Default>::default()).expect("config serializes")
		}
		fn validate(v: &Value) -> Result<bool, String> {
			Ok(IndicatorConfig::validate(&cfg_of::<C>(v)?))
		}
		fn size(v: &Value) -> Result<(u8, u8), String> {
			Ok(IndicatorConfig::size(&cfg_of::<C>(v)?))
		}
		fn names(v: &Value) -> Result<(String, String, String), String> {
			let c = cfg_of::<C>(v)?;
			let d: Box<dyn IndicatorConfigDyn<Candle>> = Box::new(c.clone());
			Ok((
				<C as IndicatorConfig>::NAME.to_string(),
				IndicatorConfig::name(&c).to_string(),
				d.name().to_string(),
			))
		}
		fn make(v: &Value, first: &In) -> Result<Box<dyn Sut>, String> {
			let c = cfg_of::<C>(v)?;
			match IndicatorConfig::init(c, &first.candle()) {
				Ok(inst) => Ok(Box::new($wrap::<C> { inst })),
				Err(e) => Err(format!("{e:?}")),
			}
		}
		fn set(v: &Value, name: &str, text: &str) -> Result<SetOutcome, String> {
			let mut c = cfg_of::<C>(v)?;
			let result = IndicatorConfig::set(&mut c, name, text.to_string()).map_err(|e| format!("{e:?}"));
			Ok(SetOutcome {
				result,
				after: simfmt::to_value(&c).map_err(|e| e.0)?,
				valid_after: IndicatorConfig::validate(&c),
			})
		}
		fn set_dyn(v: &Value, name: &str, text: &str) -> Result<SetOutcome, String> {
			let mut c = cfg_of::<C>(v)?;
			let result = {
				let d: &mut dyn IndicatorConfigDyn<Candle> = &mut c;
				d.set(name, text.to_string()).map_err(|e| format!("{e:?}"))
			};
			Ok(SetOutcome {
				result,
				after: simfmt::to_value(&c).map_err(|e| e.0)?,
				valid_after: IndicatorConfig::validate(&c),
			})
		}
		fn cfg_over(v: &Value, xs: &[In]) -> Result<Vec<Out>, String> {
			let c = cfg_of::<C>(v)?;
			IndicatorConfig::over(c, candles(xs)).map(outs).map_err(|e| format!("{e:?}"))
		}
		fn cfg_init_fn(v: &Value, xs: &[In]) -> Result<Vec<Out>, String> {
			let c = cfg_of::<C>(v)?;
			let cs = candles(xs);
			if cs.is_empty() {
				return Ok(Vec::new());
			}
			let mut f = IndicatorConfig::init_fn(c, &cs[0]).map_err(|e| format!("{e:?}"))?;
			Ok(cs.iter().map(|x| f(x).into_out()).collect())
		}
		fn dyn_ticks(v: &Value, xs: &[In]) -> Result<(Vec<Out>, (u8, u8), String, (u8, u8), bool), String> {
			let c = cfg_of::<C>(v)?;
			let d: Box<dyn IndicatorConfigDyn<Candle>> = Box::new(c);
			let cs = candles(xs);
			let mut inst = d.init(&cs[0]).map_err(|e| format!("{e:?}"))?;
			let o: Vec<Out> = cs.iter().map(|x| inst.next(x).into_out()).collect();
			let cfg_back = inst.config();
			Ok((o, inst.size(), inst.name().to_string(), cfg_back.size(), cfg_back.validate()))
		}
		fn dyn_over(v: &Value, xs: &[In]) -> Result<Vec<Out>, String> {
			let c = cfg_of::<C>(v)?;
			let d: Box<dyn IndicatorConfigDyn<Candle>> = Box::new(c);
			let cs = candles(xs);
			d.over(&cs).map(outs).map_err(|e| format!("{e:?}"))
		}
		fn dyn_inst_over(v: &Value, xs: &[In], chunk: usize) -> Result<Vec<Out>, String> {
			let c = cfg_of::<C>(v)?;
			let d: Box<dyn IndicatorConfigDyn<Candle>> = Box::new(c);
			let cs = candles(xs);
			let mut inst = d.init(&cs[0]).map_err(|e| format!("{e:?}"))?;
			let mut o = Vec::new();
			for ch in cs.chunks(chunk.max(1)) {
				let part: Vec<Candle> = ch.to_vec();
				o.extend(outs(inst.over(&part)));
			}
			Ok(o)
		}
		fn inst_meta(v: &Value, first: &In) -> Result<((u8, u8), String), String> {
			let c = cfg_of::<C>(v)?;
			let inst = IndicatorConfig::init(c, &first.candle()).map_err(|e| format!("{e:?}"))?;
			Ok((IndicatorInstance::size(&inst), IndicatorInstance::name(&inst).to_string()))
		}
		fn cfg_roundtrip(v: &Value) -> Result<(Value, String, String), String> {
			let c = cfg_of::<C>(v)?;
			let t = simfmt::to_value(&c).map_err(|e| e.0)?;
			let bytes = simfmt::encode(&t);
			let t2 = simfmt::decode(&bytes).map_err(|e| e.0)?;
			let c2 = cfg_of::<C>(&t2)?;
			Ok((simfmt::to_value(&c2).map_err(|e| e.0)?, format!("{c:?}"), format!("{c2:?}")))
		}
		fn cfg_json_roundtrip(v: &Value) -> Result<(Value, String, String), String> {
			let c = cfg_of::<C>(v)?;
			let s = serde_json::to_string(&c).map_err(|e| e.to_string())?;
			let c2: C = serde_json::from_str(&s).map_err(|e| format!("{e} on {s}"))?;
			Ok((simfmt::to_value(&c2).map_err(|e| e.0)?, format!("{c:?}"), format!("{c2:?}")))
		}
		fn accessors(v: &Value, xs: &[In]) -> Result<Option<String>, String> {
			let c = cfg_of::<C>(v)?;
			let cs = candles(xs);
			let mut inst = IndicatorConfig::init(c, &cs[0]).map_err(|e| format!("{e:?}"))?;
			for (t, x) in cs.iter().enumerate() {
				let r = IndicatorInstance::next(&mut inst, x);
				if let Some(d) = result_accessors(t, &r) {
					return Ok(Some(d));
				}
			}
			Ok(None)
		}
		IndInfo {
			name: $name,
			inst_serde: $serde,
			default_cfg,
			validate,
			size,
			names,
			make,
			set,
			set_dyn,
			cfg_over,
			cfg_init_fn,
			dyn_ticks,
			dyn_over,
			dyn_inst_over,
			inst_meta,
			cfg_roundtrip,
			cfg_json_roundtrip,
			accessors,
		}
	}};
}

pub fn indicators() -> Vec<IndInfo> {
	vec![
		ind!("Aroon", Aroon, IW, true),
		ind!("AverageDirectionalIndex", AverageDirectionalIndex, IW, true),
		ind!("AwesomeOscillator", AwesomeOscillator, IW, true),
		ind!("BollingerBands", BollingerBands, IW, true),
		ind!("ChaikinMoneyFlow", ChaikinMoneyFlow, IW, true),
		ind!("ChaikinOscillator", ChaikinOscillator, IW, true),
		ind!("ChandeKrollStop", ChandeKrollStop, IW, true),
		ind!("ChandeMomentumOscillator", ChandeMomentumOscillator, IW, true),
		ind!("CommodityChannelIndex", CommodityChannelIndex, IW, true),
		ind!("CoppockCurve", CoppockCurve, IW, true),
		ind!("DetrendedPriceOscillator", DetrendedPriceOscillator, IW, true),
		ind!("DonchianChannel", DonchianChannel, IW, true),
		ind!("EaseOfMovement", EaseOfMovement, IW, true),
		ind!("EldersForceIndex", EldersForceIndex, IW, true),
		ind!("Envelopes", Envelopes, IW, true),
		ind!("FisherTransform", FisherTransform, IW, true),
		ind!("HullMovingAverage", HullMovingAverage, IW, true),
		ind!("IchimokuCloud", IchimokuCloud, IW, true),
		ind!("Kaufman", Kaufman, IW, true),
		ind!("KeltnerChannel", KeltnerChannel, IW, true),
		ind!("KlingerVolumeOscillator", KlingerVolumeOscillator, IW, true),
		ind!("KnowSureThing", KnowSureThing, IW, true),
		ind!("MACD", MACD, IW, true),
		ind!("MomentumIndex", MomentumIndex, IW, true),
		ind!("MoneyFlowIndex", MoneyFlowIndex, IW, true),
		ind!("ParabolicSAR", ParabolicSAR, IW, true),
		ind!("PivotReversalStrategy", PivotReversalStrategy, IW, true),
		ind!("PriceChannelStrategy", PriceChannelStrategy, IW, true),
		ind!("RelativeStrengthIndex", RelativeStrengthIndex, IW, true),
		ind!("RelativeVigorIndex", RelativeVigorIndex, IW, true),
		ind!("SMIErgodicIndicator", SMIErgodicIndicator, IW, true),
		ind!("StochasticOscillator", StochasticOscillator, IW, true),
		ind!("TrendStrengthIndex", TrendStrengthIndex, IW, true),
		ind!("Trix", Trix, IW, true),
		ind!("TrueStrengthIndex", TrueStrengthIndex, IW, true),
		ind!("WoodiesCCI", WoodiesCCI, IW, true),
		ind!("Example", yata::indicators::example::Example, IWN, false),
	]
}

pub fn indicator(name: &str) -> Option<IndInfo> {
	indicators().into_iter().find(|i| i.name == name)
}
