//! The only source of entropy in the simulator: xoshiro256** seeded through SplitMix64.
//! Every decision domain draws from its own labelled sub-stream, derived from the *key* of the
//! parent stream (not from its current position), so that removing one decision during
//! minimisation does not re-randomise the others.

#[derive(Clone, Debug)]
pub struct Rng {
	key: u64,
	s: [u64; 4],
}

#[inline]
pub fn splitmix(x: &mut u64) -> u64 {
	*x = x.wrapping_add(0x9E37_79B9_7F4A_7C15);
	let mut z = *x;
	z = (z ^ (z >> 30)).wrapping_mul(0xBF58_476D_1CE4_E5B9);
	z = (z ^ (z >> 27)).wrapping_mul(0x94D0_49BB_1331_11EB);
	z ^ (z >> 31)
}

pub fn fnv(s: &str) -> u64 {
	let mut h: u64 = 0xcbf2_9ce4_8422_2325;
	for b in s.bytes() {
		h ^= u64::from(b);
		h = h.wrapping_mul(0x0000_0100_0000_01b3);
	}
	h
}

pub fn mix(a: u64, b: u64) -> u64 {
	let mut x = a ^ b.rotate_left(29) ^ 0xD6E8_FEB8_6659_FD93;
	let r = splitmix(&mut x);
	r ^ splitmix(&mut x)
}

impl Rng {
	pub fn new(key: u64) -> Self {
		let mut x = key;
		let s = [
			splitmix(&mut x),
			splitmix(&mut x),
			splitmix(&mut x),
			splitmix(&mut x),
		];
		Self { key, s }
	}

	/// labelled sub-stream; depends only on the key of `self` and the label
	pub fn sub(&self, label: &str) -> Self {
		Self::new(mix(self.key, fnv(label)))
	}

	pub fn sub_i(&self, label: &str, i: u64) -> Self {
		Self::new(mix(mix(self.key, fnv(label)), i))
	}

	#[inline]
	pub fn next_u64(&mut self) -> u64 {
		let r = self.s[1].wrapping_mul(5).rotate_left(7).wrapping_mul(9);
		let t = self.s[1] << 17;
		self.s[2] ^= self.s[0];
		self.s[3] ^= self.s[1];
		self.s[1] ^= self.s[2];
		self.s[0] ^= self.s[3];
		self.s[2] ^= t;
		self.s[3] = self.s[3].rotate_left(45);
		r
	}

	/// uniform in 0..n (n > 0)
	#[inline]
	pub fn below(&mut self, n: u64) -> u64 {
		debug_assert!(n > 0);
		// multiply-shift; bias is irrelevant here
		((u128::from(self.next_u64()) * u128::from(n)) >> 64) as u64
	}

	/// uniform in lo..=hi
	#[inline]
	pub fn range(&mut self, lo: u64, hi: u64) -> u64 {
		lo + self.below(hi - lo + 1)
	}

	#[inline]
	pub fn usize_below(&mut self, n: usize) -> usize {
		self.below(n as u64) as usize
	}

	/// uniform in [0,1)
	#[inline]
	pub fn unit(&mut self) -> f64 {
		(self.next_u64() >> 11) as f64 * (1.0 / 9_007_199_254_740_992.0)
	}

	#[inline]
	pub fn chance(&mut self, p: f64) -> bool {
		self.unit() < p
	}

	pub fn pick<'a, T>(&mut self, xs: &'a [T]) -> &'a T {
		&xs[self.usize_below(xs.len())]
	}

	/// standard normal (Box-Muller, one value)
	pub fn normal(&mut self) -> f64 {
		let u1 = 1.0 - self.unit();
		let u2 = self.unit();
		(-2.0 * u1.ln()).sqrt() * (std::f64::consts::TAU * u2).cos()
	}
}
