//! yata-sim: deterministic simulation harness for amv-dev/yata. See /verif/DESIGN.md.
#![allow(clippy::all)]
#![allow(dead_code)]

mod builds;
mod c01;
mod c05;
mod c07;
mod c08;
mod c10;
mod c11;
mod c12;
mod c15;
mod c17;
mod cfgmut;
mod common;
mod defs;
mod feed;
mod ieng;
mod meng;
mod prog;
mod refi;
mod refi2;
mod refm;
mod rng;
mod sched;
mod simfmt;
mod sut;
mod tracked;

use common::{replay_check, run_check, selfcheck_determinism, Tier};

fn usage() -> ! {
	eprintln!("usage: sim <CHECK-ID> <quick|thorough> | sim <CHECK-ID> --replay FILE | sim selfcheck-determinism");
	std::process::exit(2);
}

macro_rules! dispatch {
	($chk:expr, $args:expr) => {{
		let chk = $chk;
		if $args.len() >= 4 && $args[2] == "--replay" {
			replay_check(&chk, &$args[3]).exit
		} else {
			let tier = match $args.get(2).map(String::as_str) {
				Some("quick") | None => match std::env::var("VERIF_TIER").as_deref() {
					Ok("thorough") if $args.get(2).is_none() => Tier::Thorough,
					_ => Tier::Quick,
				},
				Some("thorough") => Tier::Thorough,
				_ => usage(),
			};
			run_check(&chk, tier).exit
		}
	}};
}

fn main() {
	let args: Vec<String> = std::env::args().collect();
	if args.len() < 2 {
		usage();
	}
	let code = match args[1].as_str() {
		"C01" => dispatch!(c01::C01, args),
		"C02" => dispatch!(defs::DefCheck { id: "C02", suts: defs::C02_SUTS }, args),
		"C03" => dispatch!(defs::DefCheck { id: "C03", suts: defs::C03_SUTS }, args),
		"C04" => dispatch!(defs::DefCheck { id: "C04", suts: defs::C04_SUTS }, args),
		"C14" => dispatch!(defs::DefCheck { id: "C14", suts: defs::C14_SUTS }, args),
		"C10" => dispatch!(c10::C10, args),
		"C11" => dispatch!(c11::C11, args),
		"C08" => dispatch!(c08::C08, args),
		"C17" => dispatch!(c17::C17, args),
		"C12" => dispatch!(c12::C12, args),
		"C19" => dispatch!(builds::BuildCheck { id: "C19" }, args),
		"C20" => dispatch!(builds::BuildCheck { id: "C20" }, args),
		"transcript" => builds::transcript_main(&args[2..]),
		"C15" => dispatch!(c15::C15, args),
		"C07" => dispatch!(c07::C07, args),
		"C05" => dispatch!(c05::IndCheck { id: "C05" }, args),
		"C06" => dispatch!(c05::IndCheck { id: "C06" }, args),
		"C09" => dispatch!(sched::SchedCheck { id: "C09" }, args),
		"C13" => dispatch!(sched::SchedCheck { id: "C13" }, args),
		"selfcheck-determinism" => {
			common::silence_panics();
			let mut ok = true;
			ok &= selfcheck_determinism(&c01::C01, 200);
			for (id, suts) in [("C02", defs::C02_SUTS), ("C03", defs::C03_SUTS), ("C04", defs::C04_SUTS), ("C14", defs::C14_SUTS)] {
				ok &= selfcheck_determinism(&defs::DefCheck { id, suts }, 120);
			}
			ok &= selfcheck_determinism(&sched::SchedCheck { id: "C09" }, 170);
			ok &= selfcheck_determinism(&sched::SchedCheck { id: "C13" }, 90);
			ok &= selfcheck_determinism(&c05::IndCheck { id: "C05" }, 72);
			ok &= selfcheck_determinism(&c05::IndCheck { id: "C06" }, 72);
			ok &= selfcheck_determinism(&c07::C07, 8);
			ok &= selfcheck_determinism(&c08::C08, 90);
			ok &= selfcheck_determinism(&c10::C10, 300);
			ok &= selfcheck_determinism(&c11::C11, 80);
			ok &= selfcheck_determinism(&c12::C12, 120);
			ok &= selfcheck_determinism(&c15::C15, 170);
			ok &= selfcheck_determinism(&c17::C17, 120);
			ok &= selfcheck_determinism(&builds::BuildCheck { id: "C19" }, 40);
			println!("determinism self-check: {}", if ok { "ok" } else { "FAILED" });
			if ok {
				0
			} else {
				2
			}
		}
		_ => usage(),
	};
	std::process::exit(code);
}
