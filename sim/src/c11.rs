//! C11 — indicator interface contract: result shape, names, dynamic dispatch equals static dispatch,
//! string setters change exactly the named public parameter, defaults are valid.

use crate::cfgmut::{self, MA_SERDE_NAMES, SOURCE_SERDE_NAMES};
use crate::common::*;
use crate::feed::{self, FaultCount, FeedCfg};
use crate::ieng::{self, IndInfo};
use crate::meng::{self, MCase};
use crate::rng::Rng;
use crate::simfmt::Value;
use crate::sut::{self, In, Params, T_RESULT};
use serde::{Deserialize, Serialize};
use serde_json::json;

#[derive(Clone, Debug, Serialize, Deserialize)]
pub struct SetOp {
	pub name: String,
	pub text: String,
	/// expected new value of the field, None when the call must fail and leave the configuration unchanged
	pub expect: Option<Value>,
}

#[derive(Clone, Debug, Serialize, Deserialize)]
pub struct Case {
	pub base: MCase,
	pub chunk: u32,
	pub sets: Vec<SetOp>,
	pub use_default: bool,
}

pub struct C11;

fn public_fields(info: &IndInfo, def: &Value) -> Vec<(String, Value)> {
	if info.name == "Example" {
		// its fields are private; `price` is the only parameter `set` documents
		return match def.field("price") {
			Some(v) => vec![("price".into(), v.clone())],
			None => vec![],
		};
	}
	match def {
		Value::Struct(_, f) => f.clone(),
		_ => vec![],
	}
}

fn ma_text_name(serde_name: &str) -> String {
	serde_name.replace('_', "")
}

fn gen_set(r: &mut Rng, fields: &[(String, Value)]) -> SetOp {
	let unknown = ["", " ", "Period", "period1 ", " period", "ma_1", "sourse", "zone2", "PERIOD", "m", "x1", "signal_", "källa"];
	let kind = r.below(10);
	if fields.is_empty() || kind == 0 {
		let name = if r.chance(0.5) {
			unknown[r.usize_below(unknown.len())].to_string()
		} else if !fields.is_empty() {
			// near miss of a real name
			let n = &fields[r.usize_below(fields.len())].0;
			match r.below(4) {
				0 => format!("{n} "),
				1 => n.to_uppercase(),
				2 => format!("{n}1"),
				_ => n[..n.len().saturating_sub(1)].to_string(),
			}
		} else {
			"x".into()
		};
		if fields.iter().any(|(k, _)| *k == name) {
			return gen_set(r, fields);
		}
		return SetOp {
			name,
			text: ["5", "0.5", "close", "ema-5", "true"][r.usize_below(5)].to_string(),
			expect: None,
		};
	}
	let (name, cur) = &fields[r.usize_below(fields.len())];
	let bad = kind == 1;
	match cur {
		Value::U8(_) | Value::U16(_) | Value::U32(_) | Value::U64(_) => {
			if bad {
				let t = ["", "abc", "1.5", "-1", "99999999999999999999999", " 5", "5 ", "0x5", "+-3"][r.usize_below(9)];
				SetOp { name: name.clone(), text: t.into(), expect: None }
			} else {
				let n = [0u64, 1, 2, 5, 14, 100, sut::PMAX - 1, sut::PMAX][r.usize_below(8)];
				let mut v = cur.clone();
				cfgmut::set_period(&mut v, n);
				SetOp { name: name.clone(), text: format!("{n}"), expect: Some(v) }
			}
		}
		Value::F32(_) | Value::F64(_) => {
			if bad {
				let t = ["", "abc", "1,5", "0.5.1", "--1", "1e", "0.3 "][r.usize_below(7)];
				SetOp { name: name.clone(), text: t.into(), expect: None }
			} else {
				// (the last two parse to a non-finite float: still "the parsed value")
				let (t, x) = [("0.25", 0.25), ("1", 1.0), ("0", 0.0), ("-2.5", -2.5), ("1e-3", 1e-3), ("3.0e2", 300.0), (".5", 0.5), ("inf", f64::INFINITY), ("-inf", f64::NEG_INFINITY)][r.usize_below(9)];
				let mut v = cur.clone();
				cfgmut::set_float(&mut v, x);
				SetOp { name: name.clone(), text: t.into(), expect: Some(v) }
			}
		}
		Value::Bool(_) => {
			if bad {
				SetOp { name: name.clone(), text: ["", "yes", "1", "TRUE", "tru"][r.usize_below(5)].into(), expect: None }
			} else {
				let b = r.chance(0.5);
				SetOp { name: name.clone(), text: format!("{b}"), expect: Some(Value::Bool(b)) }
			}
		}
		Value::UnitVariant(e, _) if e == "Source" => {
			if bad {
				SetOp { name: name.clone(), text: ["", "clos", "price", "ohlc4", "5"][r.usize_below(5)].into(), expect: None }
			} else {
				let k = r.usize_below(8);
				SetOp {
					name: name.clone(),
					text: SOURCE_SERDE_NAMES[k].into(),
					expect: Some(Value::UnitVariant("Source".into(), SOURCE_SERDE_NAMES[k].into())),
				}
			}
		}
		Value::NewtypeVariant(e, _, inner) if e == "MA" => {
			if bad {
				SetOp { name: name.clone(), text: ["", "ema", "ema-", "-5", "xma-5", "ema-256x", "EMA-5", "ema 5", "ema-5-5"][r.usize_below(9)].into(), expect: None }
			} else {
				let k = r.usize_below(15);
				let n = [1u64, 2, 9, 50, sut::PMAX - 1][r.usize_below(5)];
				let mut p = (**inner).clone();
				cfgmut::set_period(&mut p, n);
				SetOp {
					name: name.clone(),
					text: format!("{}-{n}", ma_text_name(MA_SERDE_NAMES[k])),
					expect: Some(Value::NewtypeVariant("MA".into(), MA_SERDE_NAMES[k].into(), Box::new(p))),
				}
			}
		}
		_ => SetOp { name: name.clone(), text: "1".into(), expect: None },
	}
}

impl Check for C11 {
	type Case = Case;
	fn id(&self) -> &'static str {
		"C11"
	}
	fn runs(&self, tier: Tier) -> u64 {
		let n = ieng::indicators().len() as u64;
		match tier {
			Tier::Quick => n * 1_500,
			Tier::Thorough => n * 30_000,
		}
	}
	fn generate(&self, root: &Rng, i: u64, tier: Tier) -> Case {
		let inds = ieng::indicators();
		let slot = sut::methods().len() + (i % inds.len() as u64) as usize;
		let k = i / inds.len() as u64;
		let run = root.sub_i("run", i);
		let mut rl = run.sub("len");
		let len = 10 + rl.usize_below(if tier == Tier::Quick { 120 } else { 300 });
		let mut base = crate::sched::draw_case(&run, slot, k, tier, len, false).expect("indicator case");
		let use_default = k % 5 == 0;
		let info = &inds[(i % inds.len() as u64) as usize];
		if use_default {
			base.cfg = Some((info.default_cfg)());
		}
		let def = (info.default_cfg)();
		let fields = public_fields(info, &def);
		let mut rs = run.sub("sets");
		let sets = (0..1 + rs.below(4)).map(|_| gen_set(&mut rs, &fields)).collect();
		Case {
			base,
			chunk: 1 + rl.below(40) as u32,
			sets,
			use_default,
		}
	}
	fn execute(&self, case: &Case, stats: &mut Stats) -> Vec<Violation> {
		let mut vs = Vec::new();
		let c = &case.base;
		let Some(info) = ieng::indicator(&c.sut) else { return vs };
		let Some(cfg) = &c.cfg else { return vs };
		stats.suts.insert(c.sut.clone());
		let name = c.sut.as_str();
		macro_rules! fail {
			($pred:expr, $step:expr, $($arg:tt)*) => {
				vs.push(Violation::new("C11", name, $pred, $step, format!($($arg)*)))
			};
		}
		// ---- default configuration is valid and initialises
		if case.use_default {
			stats.cover(format!("{name}|default"));
			match guarded(|| (info.validate)(cfg)) {
				Ok(Ok(true)) => {}
				other => fail!("default_config_invalid", 0, "validate() of the default configuration = {other:?}"),
			}
			match guarded(|| (info.make)(cfg, &c.stream[0])) {
				Ok(Ok(_)) => {}
				Ok(Err(e)) => fail!("default_config_does_not_init", 0, "init() of the default configuration failed: {e}"),
				Err(p) => fail!("default_config_does_not_init", 0, "init() of the default configuration panicked: {p}"),
			}
		}
		// ---- names and sizes
		let size = match guarded(|| (info.size)(cfg)) {
			Ok(Ok(s)) => s,
			_ => return vs,
		};
		if let Ok(Ok((cname, n1, n2))) = guarded(|| (info.names)(cfg)) {
			if n1 != cname || n2 != cname {
				fail!("name", 0, "NAME = {cname:?}, config.name() = {n1:?}, dyn config.name() = {n2:?}");
			}
			if let Ok(Ok((isz, iname))) = guarded(|| (info.inst_meta)(cfg, &c.stream[0])) {
				if iname != cname {
					fail!("name", 0, "instance.name() = {iname:?}, NAME = {cname:?}");
				}
				if isz != size {
					fail!("instance_size", 0, "instance.size() = {isz:?}, config.size() = {size:?}");
				}
			}
		}
		// degenerate batch lengths: the dyn and the static config-level over() agree on empty and one-element input too
		for l in 0..=c.stream.len().min(3) {
			stats.fault("replica:dyn_over_short_batch");
			let st = guarded(|| (info.cfg_over)(cfg, &c.stream[..l]));
			let dy = guarded(|| (info.dyn_over)(cfg, &c.stream[..l]));
			match (st, dy) {
				(Ok(Ok(x)), Ok(Ok(y))) => {
					if x != y {
						fail!("dyn_equals_static", l, "config over() on {l} candles: static returns {} results, dyn returns {} (or different ones)", x.len(), y.len());
					}
				}
				(Ok(Err(_)), Ok(Err(_))) => {}
				(Err(_), Err(_)) => {}
				(x, y) => fail!("dyn_equals_static", l, "config over() on {l} candles: static {:?}, dyn {:?}", x.map(|r| r.map(|v| v.len())), y.map(|r| r.map(|v| v.len()))),
			}
		}
		// ---- a first candle that does not pass OHLCV::validate() (finite, but disordered / non-positive): whatever the
		// static init does with it, the dyn init does the same
		{
			let w = c.stream[0].candle_f64();
			let bads = [
				In::c(w[0], w[2], w[1], w[3], w[4]),          // high and low swapped
				In::c(w[0], w[1], w[2], w[1] * 1.5, w[4]),    // close above the high
				In::c(-w[0], -w[2], -w[1], -w[3], w[4]),      // negative prices (a spread)
				In::c(w[0], w[1], w[2], w[3], -w[4].abs() - 1.0), // negative volume
			];
			for (bi, bad) in bads.iter().enumerate() {
				stats.fault("feed:invalid_first_candle");
				let st = guarded(|| (info.make)(cfg, bad).map(|_| ()));
				let dy = guarded(|| (info.dyn_ticks)(cfg, std::slice::from_ref(bad)).map(|_| ()));
				let class = |r: &Result<Result<(), String>, String>| match r {
					Ok(Ok(())) => 0,
					Ok(Err(_)) => 1,
					Err(_) => 2,
				};
				// (the dyn replica also delivers the candle once; a panic there belongs to C10)
				if class(&st) != class(&dy) && class(&dy) != 2 && class(&st) != 2 {
					fail!("dyn_equals_static", bi, "first candle {:?} (fails validate()): static init gives {:?}, dyn init gives {:?}", bad.candle_f64(), st, dy);
				}
			}
		}
		// ---- accessors of the results (first 40 ticks: four guarded calls per slot and tick)
		stats.fault("observer:result_accessors");
		match guarded(|| (info.accessors)(cfg, &c.stream[..c.stream.len().min(40)])) {
			Ok(Ok(Some(d))) => fail!("result_accessors", 0, "{d}"),
			Ok(Ok(None)) | Ok(Err(_)) => {}
			// the accessors are called under their own guard; a panic here comes from init()/next() and belongs to C10
			Err(_) => stats.probe("accessor_replica_next_panicked_skipped (belongs to C10)"),
		}
		// ---- shape monitor on run A + static vs dyn replicas
		if let Some(f) = meng::factory(c) {
			if let Ok(a) = meng::run_a(&f, &c.stream) {
				stats.ticks += a.len() as u64;
				for (t, o) in a.iter().enumerate() {
					stats.log(o.hash());
					if o.tag != T_RESULT || (o.w[0], o.w[1]) != (u64::from(size.0), u64::from(size.1)) {
						fail!("result_shape", t, "result at tick {t} carries ({}, {}) values/signals, size() announces {size:?}", o.w[0], o.w[1]);
						break;
					}
				}
				stats.cover(format!("{name}|shape|{}", cfgmut::ma_kinds_in(cfg).first().cloned().unwrap_or_default()));
				stats.fault("replica:dyn_ticks");
				match guarded(|| (info.dyn_ticks)(cfg, &c.stream)) {
					Ok(Ok((d, dsz, dname, csz, cvalid))) => {
						if let Some(t) = (0..a.len()).find(|t| d[*t] != a[*t]) {
							fail!("dyn_equals_static", t, "dyn instance at tick {t}: {:?}, static instance: {:?}", d[t], a[t]);
						}
						if dsz != size || csz != size || !cvalid {
							fail!("dyn_meta", 0, "dyn instance size {dsz:?}, its config() size {csz:?} valid {cvalid}, static size {size:?}");
						}
						if dname != c.sut && dname.is_empty() {
							fail!("name", 0, "dyn instance name() is empty");
						}
					}
					Ok(Err(e)) => fail!("dyn_equals_static", 0, "dyn init failed where static init succeeds: {e}"),
					Err(p) => fail!("dyn_equals_static", 0, "dyn replica panicked: {p}"),
				}
				stats.fault("replica:dyn_over");
				match guarded(|| (info.dyn_over)(cfg, &c.stream)) {
					Ok(Ok(d)) => {
						if d.len() != a.len() {
							fail!("dyn_equals_static", 0, "dyn config over() returned {} results for {} candles", d.len(), a.len());
						} else if let Some(t) = (0..a.len()).find(|t| d[*t] != a[*t]) {
							fail!("dyn_equals_static", t, "dyn config over() element {t}: {:?}, static: {:?}", d[t], a[t]);
						}
					}
					Ok(Err(e)) => fail!("dyn_equals_static", 0, "dyn over failed: {e}"),
					Err(p) => fail!("dyn_equals_static", 0, "dyn over panicked: {p}"),
				}
				stats.fault("replica:dyn_instance_over_chunked");
				match guarded(|| (info.dyn_inst_over)(cfg, &c.stream, case.chunk as usize)) {
					Ok(Ok(d)) => {
						if d.len() != a.len() {
							fail!("dyn_equals_static", 0, "dyn instance over() in chunks of {} returned {} results for {} candles", case.chunk, d.len(), a.len());
						} else if let Some(t) = (0..a.len()).find(|t| d[*t] != a[*t]) {
							fail!("dyn_equals_static", t, "dyn instance over() (chunks of {}) element {t}: {:?}, static: {:?}", case.chunk, d[t], a[t]);
						}
					}
					Ok(Err(e)) => fail!("dyn_equals_static", 0, "dyn instance over failed: {e}"),
					Err(p) => fail!("dyn_equals_static", 0, "dyn instance over panicked: {p}"),
				}
			}
		}
		// ---- set(): exactly the named public parameter changes; errors leave the configuration unchanged
		for (j, op) in case.sets.iter().enumerate() {
			stats.ops += 1;
			for (which, f) in [("set", info.set), ("dyn set", info.set_dyn)] {
				let r = guarded(|| f(cfg, &op.name, &op.text));
				let kind = if op.expect.is_some() { "public_parsable" } else { "must_fail" };
				stats.cover(format!("{name}|{which}|{kind}|{}", if op.expect.is_some() { op.name.as_str() } else { "-" }));
				stats.nontrivial = true;
				match (r, &op.expect) {
					(Err(p), _) => fail!("set_panics", j, "{which}({:?}, {:?}) panicked: {p}", op.name, op.text),
					(Ok(Err(e)), _) => fail!("set_harness", j, "{e}"),
					(Ok(Ok(out)), Some(want)) => {
						let mut expect_tree = cfg.clone();
						if let Some(fv) = expect_tree.field_mut(&op.name) {
							*fv = want.clone();
						}
						match out.result {
							Err(e) => vs.push(
								Violation::new("C11", name, "set_rejects_public_parameter", j, format!("{which}({:?}, {:?}) returned Err({e}) for a public parameter and parsable text", op.name, op.text))
									.tag("param", &op.name),
							),
							Ok(()) => {
								if out.after != expect_tree {
									vs.push(
										Violation::new("C11", name, "set_changes_wrong_field", j, format!("{which}({:?}, {:?}): configuration became {}, expected {}", op.name, op.text, out.after.render(), expect_tree.render()))
											.tag("param", &op.name),
									);
								}
							}
						}
					}
					(Ok(Ok(out)), None) => {
						if out.result.is_ok() {
							fail!("set_accepts_bad_input", j, "{which}({:?}, {:?}) returned Ok; configuration is now {}", op.name, op.text, out.after.render());
						} else if &out.after != cfg {
							fail!("set_error_changes_config", j, "{which}({:?}, {:?}) returned Err but changed the configuration to {}", op.name, op.text, out.after.render());
						}
					}
				}
			}
		}
		stats.log(vs.len() as u64);
		vs
	}
	fn shrink(&self, case: &Case) -> Vec<Case> {
		let mut v = Vec::new();
		for i in 0..case.sets.len() {
			let mut c = case.clone();
			c.sets.remove(i);
			v.push(c);
		}
		let ns = case.base.stream.len();
		for keep in [1, ns / 2, ns - 1] {
			if keep >= 1 && keep < ns {
				let mut c = case.clone();
				c.base.stream.truncate(keep);
				v.push(c);
			}
		}
		v
	}
	fn rule(&self) -> String {
		"One evaluation = one seeded (indicator, configuration, candle stream, chunk size, list of set() calls): result shape vs size() at every step; NAME vs \
		 name() on config / instance / dyn config / dyn instance; three dyn replicas (tick-wise, config over, instance over in chunks) compared bitwise with the \
		 static replica; every set(name, text) through the static and the dyn interface compared with the expected configuration TREE (exactly the named public \
		 field replaced by the parsed value; unknown or near-miss names and unparsable text must return Err and leave the tree unchanged). Every fifth run uses the \
		 default configuration and requires validate() and init(). Coverage tuple = (indicator, interface, call class, parameter name). Partial fit: set() is a \
		 stateless clause decided by seeded sampling."
			.into()
	}
	fn assumptions(&self) -> Vec<String> {
		vec!["public parameter names = the pub fields of the configuration struct = the fields of its serialized form (Example: `price` only)".into()]
	}
	fn components(&self) -> serde_json::Value {
		json!({"real": ["36 indicators + Example: IndicatorConfig / IndicatorInstance / IndicatorConfigDyn / IndicatorInstanceDyn / IndicatorResult"],
			"stub": ["configuration trees via the serde seam", "feed generator"]})
	}
}
