//! Reference models of the indicators, part 2 (DESIGN.md Appendix B items 16-36).

use crate::refi::*;
use crate::refm::*;
use crate::simfmt::Value;
use crate::tracked::{sum, Tri, T, U};
use std::collections::VecDeque;
use yata::core::Action;

fn z() -> T {
	T::exact(0.0)
}
fn i8sig(v: Option<i8>) -> Sig {
	match v {
		Some(x) if x > 0 => Sig::A(Action::BUY_ALL),
		Some(x) if x < 0 => Sig::A(Action::SELL_ALL),
		Some(_) => Sig::A(Action::None),
		None => Sig::Unknown,
	}
}
/// analog of a cross signal as Option<i8>
fn cross_i8(c: &mut RCross, a: T, b: T) -> Option<i8> {
	match c.cross(a, b) {
		Sig::A(x) => Some(i8::from(x)),
		Sig::Unknown => None,
	}
}
fn tri_of(o: Option<bool>) -> Tri {
	match o {
		Some(true) => Tri::True,
		Some(false) => Tri::False,
		None => Tri::Unknown,
	}
}
/// sign of the difference of two typical prices; exactly zero for bit-identical (h, l, c)
fn tp_sign(c: &TC, p: &TC) -> Option<i8> {
	if c[1].v.to_bits() == p[1].v.to_bits() && c[2].v.to_bits() == p[2].v.to_bits() && c[3].v.to_bits() == p[3].v.to_bits() {
		return Some(0);
	}
	let d = tp(c).sub(tp(p));
	if d.v.abs() <= d.e {
		None
	} else {
		Some(if d.v > 0.0 { 1 } else { -1 })
	}
}

struct Fisher {
	src: u8,
	zone: f64,
	hi: RSel,
	lo: RSel,
	ma: Box<dyn RMethod>,
	cross: RCross,
	cross_ma: RCross,
	prev: T,
	last_rev: Option<i8>,
}
impl RefInd for Fisher {
	fn next(&mut self, c: &TC) -> (Vec<T>, Vec<Sig>) {
		let s = source(c, self.src);
		self.hi.push(s.v);
		self.lo.push(s.v);
		let (h, l) = (self.hi.max(), self.lo.min());
		// highest == lowest is decided on the implementation's own source values: when the source is an input field
		// (exact) the reference sees the same bits; for computed sources (tp, hl2, ...) another evaluation order may
		// differ by an ulp, so equality up to the rounding of the source is treated as undecided
		let ft = if h.to_bits() == l.to_bits() && s.e == 0.0 {
			z()
		} else if (h - l).abs() <= 4.0 * (s.e + U * h.abs()) {
			// the transform is discontinuous where highest == lowest: with a range inside the rounding of the source any
			// value of the clamped transform is possible
			T::new(0.0, 0.999f64.atanh() + if cfg!(feature = "value_type_f32") { 1e-3 } else { 1e-9 })
		} else {
			let x = T::exact(s.v).sub(T::exact(l)).div(T::exact(h).sub(T::exact(l))).scale(2.0).sub(T::exact(1.0));
			// the clamp constant is a ValueType literal in the implementation
			let b = crate::sut::vt(0.999);
			let xv = x.v.clamp(-b, b);
			// d/dx atanh = 1 / (1 - x^2) <= 501 on the clamped domain. In double precision the reference calls the very
			// same library function on the same argument; in single precision it does not, and the library's
			// `0.5·ln_1p(2x / (1 - x))` loses u / (1 - |x|) next to the clamp
			let lib = if cfg!(feature = "value_type_f32") { 4.0 * U / (1.0 - xv.abs()) } else { 0.0 };
			T::new(xv.atanh(), (x.e + s.e / (h - l).abs().max(f64::MIN_POSITIVE)) * 501.0 + 8.0 * U * xv.atanh().abs() + 4.0 * U + lib)
		};
		let cum = T::new(self.prev.v * 0.5 + ft.v, self.prev.e * 0.5 + ft.e + 2.0 * U * (self.prev.v.abs() + ft.v.abs()) + if self.prev.v == 0.0 { 0.0 } else { crate::tracked::ETA });
		let rev = cross_i8(&mut self.cross, cum, self.prev);
		let zero = z();
		let cond1 = match rev {
			Some(r) => tri_of(Some(r > 0)).and(cum.lt(zero)).or(tri_of(Some(r < 0)).and(cum.gt(zero))),
			None => Tri::Unknown,
		};
		let s1 = match cond1 {
			Tri::False => Sig::A(Action::from(0.0)),
			Tri::True => action_from(cum.scale(1.0 / self.zone)),
			Tri::Unknown => Sig::Unknown,
		};
		let sl = self.ma.next(cum);
		let cm = cross_i8(&mut self.cross_ma, cum, sl);
		self.last_rev = match (rev, self.last_rev) {
			(Some(0), l) => l,
			(Some(r), _) => Some(r),
			(None, _) => None,
		};
		let cond2 = match (self.last_rev, cm) {
			(Some(lr), Some(cm)) => tri_of(Some(lr > 0 && cm > 0)).and(sl.lt(zero)).or(tri_of(Some(lr < 0 && cm < 0)).and(sl.gt(zero))),
			(_, Some(0)) => Tri::False,
			_ => Tri::Unknown,
		};
		let s2 = match cond2 {
			Tri::False => Sig::A(Action::from(0.0)),
			Tri::True => action_from(sl.scale(1.0 / self.zone)),
			Tri::Unknown => Sig::Unknown,
		};
		self.prev = cum;
		(vec![cum, sl], vec![s1, s2])
	}
}

struct HullMa {
	src: u8,
	hma: RHma,
	pivot: RRev,
}
impl RefInd for HullMa {
	fn next(&mut self, c: &TC) -> (Vec<T>, Vec<Sig>) {
		let v = self.hma.next(source(c, self.src));
		(vec![v], vec![i8sig(self.pivot.signal(v))])
	}
}

struct Ichimoku {
	src: u8,
	h: [RSel; 3],
	l: [RSel; 3],
	w1: RPast,
	w2: RPast,
	c1: RCross,
	c2: RCross,
}
impl RefInd for Ichimoku {
	fn next(&mut self, c: &TC) -> (Vec<T>, Vec<Sig>) {
		for i in 0..3 {
			self.h[i].push(c[1].v);
			self.l[i].push(c[2].v);
		}
		let half = |a: f64, b: f64| T::exact(a).add(T::exact(b)).scale(0.5);
		let tenkan = half(self.h[0].max(), self.l[0].min());
		let kijun = half(self.h[1].max(), self.l[1].min());
		let a = self.w1.next(tenkan.add(kijun).scale(0.5));
		let b = self.w2.next(half(self.h[2].max(), self.l[2].min()));
		let s = source(c, self.src);
		let x1 = cross_i8(&mut self.c1, tenkan, kijun);
		let x2 = cross_i8(&mut self.c2, s, kijun);
		let up = s.gt(a).and(s.gt(b)).and(a.gt(b));
		let dn = s.lt(a).and(s.lt(b)).and(a.lt(b));
		let mk = |x: Option<i8>| -> Sig {
			match x {
				Some(0) => Sig::A(Action::None),
				Some(v) if v > 0 => match up {
					Tri::True => Sig::A(Action::BUY_ALL),
					Tri::False => Sig::A(Action::None),
					Tri::Unknown => Sig::Unknown,
				},
				Some(_) => match dn {
					Tri::True => Sig::A(Action::SELL_ALL),
					Tri::False => Sig::A(Action::None),
					Tri::Unknown => Sig::Unknown,
				},
				None => {
					if up == Tri::False && dn == Tri::False {
						Sig::A(Action::None)
					} else {
						Sig::Unknown
					}
				}
			}
		};
		(vec![tenkan, kijun, a, b], vec![mk(x1), mk(x2)])
	}
}

struct Kaufman {
	src: u8,
	fastest: f64,
	slowest: f64,
	square: bool,
	k: f64,
	filter: bool,
	past: RPast,
	vol: RLinVol,
	sd: Option<RStDev>,
	value: T,
	cross: RCross,
	/// Some(None) = no pending signal, Some(Some(x)) = pending x, None = unknown (tainted)
	last_signal: Option<Option<i8>>,
	last_value: T,
}
impl RefInd for Kaufman {
	fn next(&mut self, c: &TC) -> (Vec<T>, Vec<Sig>) {
		let s = source(c, self.src);
		let dir = s.sub(self.past.next(s)).abs();
		let vol = self.vol.next(s);
		let mut er = if vol.v == 0.0 && vol.e == 0.0 { z() } else { dir.div(vol) };
		if er.und() {
			er = T::new(0.5, 0.5);
		}
		let mut sm = er.scale(self.fastest - self.slowest).add(T::exact(self.slowest));
		if self.square {
			sm = sm.mul(sm);
		}
		let dv = s.v - self.value.v;
		let smv = sm.v.clamp(0.0, 1.0);
		self.value = T::new(
			self.value.v + sm.v * dv,
			(1.0 - smv) * self.value.e + smv * s.e + sm.e * (dv.abs() + s.e + self.value.e) + 8.0 * U * s.v.abs().max(self.value.v.abs()),
		);
		let value = self.value;
		if std::env::var("VERIF_DEBUG").is_ok() {
			eprintln!("kaufman: s={:e} dir={:?} vol={:?} er={:?} sm={:?} value={:?}", s.v, dir, vol, er, sm, value);
		}
		let cross = cross_i8(&mut self.cross, s, value);
		let signal = if self.filter {
			let sdv = self.sd.as_mut().map(|m| m.next_var(value).sqrt()).unwrap_or(z());
			let filt = sdv.scale(self.k);
			match cross {
				Some(x) if x != 0 => {
					self.last_signal = Some(Some(x));
					self.last_value = value;
					Sig::A(Action::None)
				}
				Some(_) => match self.last_signal {
					Some(None) => Sig::A(Action::None),
					Some(Some(p)) => match value.sub(self.last_value).abs().gt(filt) {
						Tri::True => {
							self.last_signal = Some(None);
							i8sig(Some(p))
						}
						Tri::False => Sig::A(Action::None),
						Tri::Unknown => {
							self.last_signal = None;
							Sig::Unknown
						}
					},
					None => Sig::Unknown,
				},
				None => {
					self.last_signal = None;
					Sig::Unknown
				}
			}
		} else {
			i8sig(cross)
		};
		(vec![value], vec![signal])
	}
}

struct Keltner {
	src: u8,
	sigma: f64,
	prev_close: T,
	ma: Box<dyn RMethod>,
	atr: RSma,
	above: RCross,
	under: RCross,
}
impl RefInd for Keltner {
	fn next(&mut self, c: &TC) -> (Vec<T>, Vec<Sig>) {
		let s = source(c, self.src);
		let tr = tr_close(c, self.prev_close);
		self.prev_close = c[3];
		let mid = self.ma.next(s);
		let atr = self.atr.next(tr);
		let (up, lo) = (mid.add(atr.scale(self.sigma)), mid.sub(atr.scale(self.sigma)));
		let (_, un) = self.under.step(s, lo);
		let (ab, _) = self.above.step(s, up);
		// as documented: values (upper bound, source, lower bound); above the upper bound => buy, under the lower => sell
		(vec![up, s, lo], vec![diff_sig(ab, un)])
	}
	fn implemented_layout(&self) -> Option<(Vec<usize>, Vec<i8>)> {
		// the implementation returns (source, upper, lower) and the opposite sign
		Some((vec![1, 0, 2], vec![-1]))
	}
}

struct Kvo {
	ma1: Box<dyn RMethod>,
	ma2: Box<dyn RMethod>,
	ma3: Box<dyn RMethod>,
	c1: RCross,
	c2: RCross,
	last: TC,
}
impl RefInd for Kvo {
	fn next(&mut self, c: &TC) -> (Vec<T>, Vec<Sig>) {
		let sg = tp_sign(c, &self.last);
		self.last = *c;
		let vol = match sg {
			Some(s) => T::exact(f64::from(s) * c[4].v),
			None => T::new(0.0, c[4].v.abs()),
		};
		if std::env::var("VERIF_DEBUG").is_ok() {
			eprintln!("kvo: sign={sg:?} vol={vol:?}");
		}
		let ko = self.ma1.next(vol).sub(self.ma2.next(vol));
		let sl = self.ma3.next(ko);
		let s1 = self.c1.cross(ko, z());
		let s2 = self.c2.cross(ko, sl);
		(vec![ko, sl], vec![s1, s2])
	}
}

struct Kst {
	roc: [RPast; 4],
	ma: [Box<dyn RMethod>; 4],
	sig: Box<dyn RMethod>,
	cross: RCross,
}
impl RefInd for Kst {
	fn next(&mut self, c: &TC) -> (Vec<T>, Vec<Sig>) {
		let x = c[3];
		let mut kst = z();
		for i in 0..4 {
			let p = self.roc[i].next(x);
			let r = x.sub(p).div(p);
			kst = kst.add(self.ma[i].next(r).scale((i + 1) as f64));
		}
		let sl = self.sig.next(kst);
		let s = self.cross.cross(kst, sl);
		(vec![kst, sl], vec![s])
	}
}

struct Macd {
	src: u8,
	ma1: Box<dyn RMethod>,
	ma2: Box<dyn RMethod>,
	sig: Box<dyn RMethod>,
	c1: RCross,
	c2: RCross,
}
impl RefInd for Macd {
	fn next(&mut self, c: &TC) -> (Vec<T>, Vec<Sig>) {
		let s = source(c, self.src);
		let macd = self.ma1.next(s).sub(self.ma2.next(s));
		let sl = self.sig.next(macd);
		let s1 = self.c1.cross(macd, sl);
		let s2 = self.c2.cross(macd, z());
		(vec![macd, sl], vec![s1, s2])
	}
}

struct MomIdx {
	src: u8,
	p1: RPast,
	p2: RPast,
}
impl RefInd for MomIdx {
	fn next(&mut self, c: &TC) -> (Vec<T>, Vec<Sig>) {
		let s = source(c, self.src);
		let v = s.sub(self.p1.next(s));
		let w = s.sub(self.p2.next(s));
		(vec![v, w], vec![diff_sig(v.gt(z()).and(w.gt(z())), v.lt(z()).and(w.lt(z())))])
	}
}

struct Mfi {
	zone: f64,
	period: usize,
	prev: TC,
	/// per candle in the window: (positive flow, negative flow); None = sign of the tp change unknown
	flows: VecDeque<(T, T)>,
	d: Drift,
	cu: RCross,
	cl: RCross,
}
impl RefInd for Mfi {
	fn next(&mut self, c: &TC) -> (Vec<T>, Vec<Sig>) {
		let sg = tp_sign(c, &self.prev);
		self.prev = *c;
		let v = c[4];
		let f = match sg {
			Some(1) => (v, z()),
			Some(-1) => (z(), v),
			Some(_) => (z(), z()),
			None => (T::new(v.v / 2.0, v.v.abs() / 2.0), T::new(v.v / 2.0, v.v.abs() / 2.0)),
		};
		self.flows.pop_front();
		self.flows.push_back(f);
		self.d.observe(v);
		let drift = self.d.d() * self.period as f64;
		let p = sum(self.flows.iter().map(|x| x.0)).widen(drift);
		let n = sum(self.flows.iter().map(|x| x.1)).widen(drift);
		// negative money flow exactly zero in the window: the implementation's convention is ratio := 1, but only if its
		// running sum is exactly zero too, which rounding residue decides => undefined unless never perturbed
		let value = if n.v == 0.0 && self.d.m == 0.0 {
			T::exact(0.5)
		} else {
			let ratio = p.div(n);
			if ratio.und() {
				T::UND
			} else {
				T::exact(1.0).sub(T::exact(1.0).div(T::exact(1.0).add(ratio)))
			}
		};
		let (up, lo) = (T::exact(crate::sut::vt(1.0 - self.zone)), T::exact(self.zone));
		let a = cross_i8(&mut self.cu, value, up);
		let b = cross_i8(&mut self.cl, value, lo);
		let enters = match (a, b) {
			(Some(a), Some(b)) => Some(i8::from(b < 0) - i8::from(a > 0)),
			_ => None,
		};
		let leaves = match (a, b) {
			(Some(a), Some(b)) => Some(i8::from(b > 0) - i8::from(a < 0)),
			_ => None,
		};
		(vec![up, value, lo], vec![i8sig(enters), i8sig(leaves)])
	}
}

struct Psar {
	af_step: f64,
	af_max: f64,
	trend: i8,
	inc: f64,
	low: f64,
	high: f64,
	sar: f64,
	prev: TC,
	prev_trend: i8,
	lost: bool,
	mag: f64,
	/// the stop is a bit-exact copy of an input (set from an extreme on a flip, or clamped to a low/high by a clear
	/// margin) as opposed to the rounded result of `sar + af·(ep − sar)`: only then are ties with a price decided
	sar_exact: bool,
}
impl RefInd for Psar {
	fn next(&mut self, c: &TC) -> (Vec<T>, Vec<Sig>) {
		if self.lost {
			return (vec![T::UND, T::UND], vec![Sig::Unknown]);
		}
		let (h, l) = (c[1].v, c[2].v);
		let mag = self.mag;
		let near = move |a: f64, b: f64| (a - b).abs() <= 256.0 * U * a.abs().max(b.abs()).max(mag);
		if self.trend > 0 {
			if self.high < h {
				self.high = h;
				self.inc += 1.0;
			}
			if near(l, self.sar) && !self.sar_exact {
				self.lost = true;
			}
			if l < self.sar {
				self.trend = -1;
				self.low = l;
				self.inc = 1.0;
				self.sar = self.high;
				self.sar_exact = true;
			}
		} else {
			if self.low > l {
				self.low = l;
				self.inc += 1.0;
			}
			if near(h, self.sar) && !self.sar_exact {
				self.lost = true;
			}
			if h > self.sar {
				self.trend = 1;
				self.high = h;
				self.inc = 1.0;
				self.sar = self.low;
				self.sar_exact = true;
			}
		}
		if self.lost {
			return (vec![T::UND, T::UND], vec![Sig::Unknown]);
		}
		let (trend, sar) = (self.trend, self.sar);
		let af = self.af_max.min(self.af_step * self.inc);
		if self.trend > 0 {
			let raw = self.sar + af * (self.high - self.sar);
			let bound = l.min(self.prev[2].v);
			// clamped by a clear margin: both evaluations of `raw` agree that the clamp is active
			self.sar_exact = raw > bound && !near(raw, bound);
			self.sar = raw.min(bound);
		} else {
			let raw = self.sar + af * (self.low - self.sar);
			let bound = h.max(self.prev[1].v);
			self.sar_exact = raw < bound && !near(raw, bound);
			self.sar = raw.max(bound);
		}
		self.prev = *c;
		let signal = if self.prev_trend != trend { trend } else { 0 };
		self.prev_trend = trend;
		// sar' = sar + af * (ep - sar): the rounding lives at the scale of the extreme points of the history
		self.mag = self.mag.max(h.abs());
		(vec![T::new(sar, 64.0 * U * self.mag), T::exact(f64::from(trend))], vec![i8sig(Some(signal))])
	}
}

struct PivotRev {
	right: usize,
	ph: RReversal,
	pl: RReversal,
	w: VecDeque<TC>,
	hprice: f64,
	lprice: f64,
}
impl RefInd for PivotRev {
	fn next(&mut self, c: &TC) -> (Vec<T>, Vec<Sig>) {
		let past = self.w.pop_front().unwrap_or(*c);
		self.w.push_back(*c);
		let _ = self.right;
		let (swh, _) = self.ph.next(c[1].v);
		let (_, swl) = self.pl.next(c[2].v);
		if swh {
			self.hprice = past[1].v;
		}
		let le = i8::from(swh || c[1].v <= self.hprice);
		if swl {
			self.lprice = past[2].v;
		}
		let se = i8::from(swl || c[2].v >= self.lprice);
		(vec![], vec![i8sig(Some(se - le))])
	}
}

struct PriceChannel {
	sigma: f64,
	hi: RSel,
	lo: RSel,
}
impl RefInd for PriceChannel {
	fn next(&mut self, c: &TC) -> (Vec<T>, Vec<Sig>) {
		self.hi.push(c[1].v);
		self.lo.push(c[2].v);
		let (h, l) = (T::exact(self.hi.max()), T::exact(self.lo.min()));
		let mid = h.add(l).scale(0.5);
		let delta = h.sub(mid);
		let up = mid.add(delta.scale(self.sigma));
		let lo = mid.sub(delta.scale(self.sigma));
		(vec![up, lo], vec![diff_sig(c[1].ge(up), c[2].le(lo))])
	}
}

struct Rsi {
	src: u8,
	zone: f64,
	prev: T,
	pos: Box<dyn RMethod>,
	neg: Box<dyn RMethod>,
	cu: RCross,
	cl: RCross,
	perturbed: bool,
}
impl RefInd for Rsi {
	fn next(&mut self, c: &TC) -> (Vec<T>, Vec<Sig>) {
		let s = source(c, self.src);
		let ch = s.sub(self.prev);
		self.prev = s;
		if ch.v != 0.0 || ch.e != 0.0 {
			self.perturbed = true;
		}
		let up = if ch.v > 0.0 { ch } else if ch.v.abs() <= ch.e { T::new(0.0, ch.e) } else { z() };
		let dn = if ch.v < 0.0 { ch.neg() } else if ch.v.abs() <= ch.e { T::new(0.0, ch.e) } else { z() };
		let p = self.pos.next(up);
		let n = self.neg.next(dn);
		// both averages are non-negative by definition; overshooting kinds (and residue) are clamped at zero
		let clamp0 = |x: T| -> T {
			if x.und() {
				T::UND
			} else if x.v + x.e <= 0.0 {
				T::exact(0.0)
			} else if x.v - x.e >= 0.0 {
				x
			} else {
				let hi = x.v + x.e;
				T::new(hi / 2.0, hi / 2.0)
			}
		};
		let (p, n) = (clamp0(p), clamp0(n));
		let value = if !self.perturbed {
			T::exact(0.5)
		} else {
			let den = p.add(n);
			if den.v == 0.0 && den.e <= U {
				T::exact(0.5)
			} else {
				p.div(den)
			}
		};
		let (lo, up_z) = (T::exact(self.zone), T::exact(crate::sut::vt(1.0 - self.zone)));
		let b = cross_i8(&mut self.cl, value, lo);
		let a = cross_i8(&mut self.cu, value, up_z);
		let s0 = match (a, b) {
			(Some(a), Some(b)) => Some(i8::from(b < 0) - i8::from(a > 0)),
			_ => None,
		};
		let s1 = match (a, b) {
			(Some(a), Some(b)) => Some(i8::from(b > 0) - i8::from(a < 0)),
			_ => None,
		};
		(vec![value], vec![i8sig(s0), i8sig(s1)])
	}
}

struct Rvi {
	zone: f64,
	prev_close: T,
	sw1: RWeighted,
	sm1: RSma,
	sw2: RWeighted,
	sm2: RSma,
	sig: Box<dyn RMethod>,
	cross: RCross,
	moved: bool,
}
impl RefInd for Rvi {
	fn next(&mut self, c: &TC) -> (Vec<T>, Vec<Sig>) {
		let co = c[3].sub(self.prev_close);
		let hl = c[1].sub(c[2]);
		self.prev_close = c[3];
		let n = self.sm1.next(self.sw1.next(co));
		let d = self.sm2.next(self.sw2.next(hl));
		if hl.v != 0.0 {
			self.moved = true;
		}
		let rvi = if !self.moved { z() } else { n.div(d) };
		let sg = self.sig.next(rvi);
		let s1 = cross_i8(&mut self.cross, rvi, sg);
		let zn = T::exact(self.zone);
		let s2 = match s1 {
			Some(0) => Sig::A(Action::None),
			Some(x) if x < 0 => match rvi.gt(zn).and(sg.gt(zn)) {
				Tri::True => Sig::A(Action::BUY_ALL),
				Tri::False => Sig::A(Action::None),
				Tri::Unknown => Sig::Unknown,
			},
			Some(_) => match rvi.lt(zn.neg()).and(sg.lt(zn.neg())) {
				Tri::True => Sig::A(Action::SELL_ALL),
				Tri::False => Sig::A(Action::None),
				Tri::Unknown => Sig::Unknown,
			},
			None => Sig::Unknown,
		};
		(vec![rvi, sg], vec![i8sig(s1), s2])
	}
}

struct Smi {
	src: u8,
	zone: f64,
	tsi: RTsi,
	sig: Box<dyn RMethod>,
	cross: RCross,
}
impl RefInd for Smi {
	fn next(&mut self, c: &TC) -> (Vec<T>, Vec<Sig>) {
		let t = self.tsi.next(source(c, self.src));
		let sg = self.sig.next(t);
		let x = cross_i8(&mut self.cross, t, sg);
		let zn = T::exact(self.zone);
		let s = match x {
			Some(0) => Sig::A(Action::None),
			Some(v) if v > 0 => tri_sig(sg.lt(zn.neg())),
			Some(_) => match sg.gt(zn) {
				Tri::True => Sig::A(Action::SELL_ALL),
				Tri::False => Sig::A(Action::None),
				Tri::Unknown => Sig::Unknown,
			},
			None => Sig::Unknown,
		};
		(vec![t, sg, t.sub(sg)], vec![s])
	}
}

struct Stoch {
	zone: f64,
	hi: RSel,
	lo: RSel,
	ma1: Box<dyn RMethod>,
	ma2: Box<dyn RMethod>,
	a1: RCross,
	u1: RCross,
	a2: RCross,
	u2: RCross,
	x: RCross,
}
impl RefInd for Stoch {
	fn next(&mut self, c: &TC) -> (Vec<T>, Vec<Sig>) {
		self.hi.push(c[1].v);
		self.lo.push(c[2].v);
		let (h, l) = (self.hi.max(), self.lo.min());
		let k = if h == l { T::exact(0.5) } else { c[3].sub(T::exact(l)).div(T::exact(h).sub(T::exact(l))) };
		let f1 = self.ma1.next(k);
		let f2 = self.ma2.next(f1);
		let (zl, zu) = (T::exact(self.zone), T::exact(crate::sut::vt(1.0 - self.zone)));
		let (a1, _) = self.a1.step(f1, zl);
		let (_, u1) = self.u1.step(f1, zu);
		let (a2, _) = self.a2.step(f2, zl);
		let (_, u2) = self.u2.step(f2, zu);
		let s3 = self.x.cross(f1, f2);
		(vec![f1, f2], vec![diff_sig(a1, u1), diff_sig(a2, u2), s3])
	}
}

struct TrendStrength {
	src: u8,
	zone: f64,
	ro: usize,
	period: usize,
	w: VecDeque<T>,
	wma: RWeighted,
	d: Drift,
	under: RCross,
	above: RCross,
	rev: RRev,
	vals: VecDeque<T>,
}
impl RefInd for TrendStrength {
	fn next(&mut self, c: &TC) -> (Vec<T>, Vec<Sig>) {
		let s = source(c, self.src);
		self.w.pop_front();
		self.w.push_back(s);
		self.d.observe(s);
		let p = self.period as f64;
		let wma = self.wma.next(s);
		let mean = sum(self.w.iter().copied()).scale(1.0 / p).widen(self.d.d());
		let sx = (p + 1.0) * p / 2.0;
		let sx2 = sx * (2.0 * p + 1.0) / 3.0;
		let k = sx2 - (p + 1.0) * sx * 0.5;
		// sum (y - mean)^2, the implementation keeps sum y^2 and sum y incrementally
		let ss = sum(self.w.iter().map(|y| {
			let dlt = T::new(y.v - mean.v, y.e + mean.e);
			dlt.mul(dlt)
		}))
		.widen(C_STDEV * U * (p + self.d.t) * self.d.m * self.d.m * p);
		let num = wma.sub(mean).scale(sx);
		let den = ss.scale(k).sqrt();
		let value = num.div(den);
		let zn = T::exact(self.zone);
		let (_, un) = self.under.step(value, zn);
		let (ab, _) = self.above.step(value, zn.neg());
		let s0 = diff_sig(un, ab);
		let rev = self.rev.signal(value);
		// as documented: the MAIN VALUE (at the turning point, `reverse_offset` = 2 steps back for the (1,2) detector) is
		// beyond the zone and changes direction: below the lower zone and turning up => positive, above the upper zone and
		// turning down => negative
		self.vals.push_back(value);
		if self.vals.len() > self.ro + 1 {
			self.vals.pop_front();
		}
		let back = *self.vals.front().unwrap();
		let s1 = match rev {
			Some(0) => Sig::A(Action::None),
			Some(r) if r > 0 => tri_sig(back.le(zn.neg())),
			Some(_) => match back.ge(zn) {
				Tri::True => Sig::A(Action::SELL_ALL),
				Tri::False => Sig::A(Action::None),
				Tri::Unknown => Sig::Unknown,
			},
			None => Sig::Unknown,
		};
		(vec![value], vec![s0, s1])
	}
}

struct Trix {
	src: u8,
	tma: RExp,
	prev: T,
	sig: Box<dyn RMethod>,
	rev: RRev,
	c1: RCross,
	c2: RCross,
}
impl RefInd for Trix {
	fn next(&mut self, c: &TC) -> (Vec<T>, Vec<Sig>) {
		let t = self.tma.next(source(c, self.src));
		let value = t.sub(self.prev);
		self.prev = t;
		let s0 = i8sig(self.rev.signal(value));
		let sl = self.sig.next(value);
		let s1 = self.c1.cross(value, sl);
		let s2 = self.c2.cross(value, z());
		(vec![value, sl], vec![s0, s1, s2])
	}
}

struct TrueSi {
	src: u8,
	zone: f64,
	tsi: RTsi,
	ema: REma,
	under: RCross,
	above: RCross,
	c1: RCross,
	c2: RCross,
}
impl RefInd for TrueSi {
	fn next(&mut self, c: &TC) -> (Vec<T>, Vec<Sig>) {
		let t = self.tsi.next(source(c, self.src));
		let sg = self.ema.next(t);
		let zn = T::exact(self.zone);
		let (_, un) = self.under.step(t, zn.neg());
		let (ab, _) = self.above.step(t, zn);
		let s1 = self.c1.cross(t, z());
		let s2 = self.c2.cross(t, sg);
		(vec![t, sg], vec![diff_sig(un, ab), s1, s2])
	}
}

struct Woodies {
	src: u8,
	lag: i64,
	turbo: RCci,
	trend: RCci,
	cross: RCross,
	count: Option<i64>,
}
impl RefInd for Woodies {
	fn next(&mut self, c: &TC) -> (Vec<T>, Vec<Sig>) {
		let s = source(c, self.src);
		let tu = self.turbo.next(s).scale(1.0 / 1.5);
		let tr = self.trend.next(s).scale(1.0 / 1.5);
		let x = cross_i8(&mut self.cross, tr, z());
		let sign = match (tr.gt(z()), tr.lt(z())) {
			(Tri::True, _) => Some(1i64),
			(_, Tri::True) => Some(-1),
			(Tri::False, Tri::False) => Some(0),
			_ => None,
		};
		self.count = match x {
			Some(0) => match (self.count, sign) {
				(Some(c), Some(s)) => Some(c + s),
				_ => None,
			},
			Some(v) => Some(i64::from(v)),
			None => None,
		};
		// stayed above (below) the zero line for `s1_lag` bars
		let s0 = match self.count {
			Some(cn) => i8sig(Some(i8::from(cn == self.lag) - i8::from(cn == -self.lag))),
			None => Sig::Unknown,
		};
		(vec![tu, tr], vec![s0])
	}
}

struct Cmo {
	src: u8,
	zone: f64,
	prev: T,
	changes: VecDeque<T>,
	d: Drift,
	under: RCross,
	above: RCross,
}
impl RefInd for Cmo {
	fn next(&mut self, c: &TC) -> (Vec<T>, Vec<Sig>) {
		let s = source(c, self.src);
		let ch = s.sub(self.prev);
		self.prev = s;
		self.changes.pop_front();
		self.changes.push_back(ch);
		self.d.observe(ch);
		let n = self.changes.len() as f64;
		let pos = |c: T| -> T {
			if c.und() {
				T::UND
			} else if c.e == 0.0 || c.v - c.e > 0.0 {
				if c.v > 0.0 {
					c
				} else {
					T::exact(0.0)
				}
			} else if c.v + c.e <= 0.0 {
				T::exact(0.0)
			} else {
				T::new((c.v + c.e) / 2.0, (c.v + c.e) / 2.0)
			}
		};
		let all_zero = self.changes.iter().all(|c| c.v == 0.0 && c.e == 0.0);
		let drift = self.d.d() * n;
		let p = sum(self.changes.iter().map(|c| pos(*c))).widen(drift);
		let q = sum(self.changes.iter().map(|c| pos(c.neg()))).widen(drift);
		let value = if all_zero && self.d.m == 0.0 { z() } else { p.sub(q).div(p.add(q)) };
		let zn = T::exact(self.zone);
		let (_, un) = self.under.step(value, zn.neg());
		let (ab, _) = self.above.step(value, zn);
		(vec![value], vec![diff_sig(un, ab)])
	}
}

pub fn make_refind2(name: &str, cfg: &Value, first: &TC) -> Option<Box<dyn RefInd>> {
	let c0 = *first;
	let src = csrc(cfg, "source");
	let s0 = source(&c0, src);
	Some(match name {
		"ChandeMomentumOscillator" => {
			let p = cu(cfg, "period");
			Box::new(Cmo {
				src,
				zone: cf(cfg, "zone"),
				prev: s0,
				changes: std::iter::repeat(z()).take(p).collect(),
				d: Drift::new(C_INTEGRAL, p, z()),
				under: RCross::default0(),
				above: RCross::default0(),
			})
		}
		"FisherTransform" => {
			let (k, n) = cma(cfg, "signal");
			let p = cu(cfg, "period1");
			Box::new(Fisher {
				src,
				zone: cf(cfg, "zone"),
				hi: RSel::new(p, s0.v),
				lo: RSel::new(p, s0.v),
				ma: ref_ma(&k, n, z()),
				cross: RCross::default0(),
				cross_ma: RCross::default0(),
				prev: z(),
				last_rev: Some(0),
			})
		}
		"HullMovingAverage" => Box::new(HullMa {
			src,
			hma: RHma::new(cu(cfg, "period"), s0),
			pivot: RRev::new(cu(cfg, "left"), cu(cfg, "right"), s0),
		}),
		"IchimokuCloud" => {
			let (l1, l2, l3, m) = (cu(cfg, "l1"), cu(cfg, "l2"), cu(cfg, "l3"), cu(cfg, "m"));
			let hl = hl2(&c0);
			Box::new(Ichimoku {
				src,
				h: [RSel::new(l1, c0[1].v), RSel::new(l2, c0[1].v), RSel::new(l3, c0[1].v)],
				l: [RSel::new(l1, c0[2].v), RSel::new(l2, c0[2].v), RSel::new(l3, c0[2].v)],
				w1: RPast::new(m, hl),
				w2: RPast::new(m, hl),
				c1: RCross::default0(),
				c2: RCross::default0(),
			})
		}
		"Kaufman" => {
			let p1 = cu(cfg, "period1");
			let fp = cu(cfg, "filter_period");
			Box::new(Kaufman {
				src,
				fastest: 2.0 / (cu(cfg, "period2") as f64 + 1.0),
				slowest: 2.0 / (cu(cfg, "period3") as f64 + 1.0),
				square: cb(cfg, "square_smooth"),
				k: cf(cfg, "k"),
				filter: fp > 1,
				past: RPast::new(p1, s0),
				vol: RLinVol::new(p1, s0),
				sd: if fp > 1 { Some(RStDev::new(fp, s0)) } else { None },
				value: s0,
				cross: RCross::default0(),
				last_signal: Some(None),
				last_value: s0,
			})
		}
		"KeltnerChannel" => {
			let (k, n) = cma(cfg, "ma");
			Box::new(Keltner {
				src,
				sigma: cf(cfg, "sigma"),
				prev_close: c0[3],
				ma: ref_ma(&k, n, s0),
				atr: RSma::new(n, c0[1].sub(c0[2])),
				above: RCross::default0(),
				under: RCross::default0(),
			})
		}
		"KlingerVolumeOscillator" => {
			let (k1, n1) = cma(cfg, "ma1");
			let (k2, n2) = cma(cfg, "ma2");
			let (k3, n3) = cma(cfg, "signal");
			Box::new(Kvo {
				ma1: ref_ma(&k1, n1, z()),
				ma2: ref_ma(&k2, n2, z()),
				ma3: ref_ma(&k3, n3, z()),
				c1: RCross::default0(),
				c2: RCross::default0(),
				last: c0,
			})
		}
		"KnowSureThing" => {
			let mk = |i: usize| {
				let (k, n) = cma(cfg, &format!("ma{i}"));
				ref_ma(&k, n, z())
			};
			let (ks, ns) = cma(cfg, "signal");
			Box::new(Kst {
				roc: [
					RPast::new(cu(cfg, "period1"), c0[3]),
					RPast::new(cu(cfg, "period2"), c0[3]),
					RPast::new(cu(cfg, "period3"), c0[3]),
					RPast::new(cu(cfg, "period4"), c0[3]),
				],
				ma: [mk(1), mk(2), mk(3), mk(4)],
				sig: ref_ma(&ks, ns, z()),
				cross: RCross::default0(),
			})
		}
		"MACD" => {
			let (k1, n1) = cma(cfg, "ma1");
			let (k2, n2) = cma(cfg, "ma2");
			let (k3, n3) = cma(cfg, "signal");
			Box::new(Macd {
				src,
				ma1: ref_ma(&k1, n1, s0),
				ma2: ref_ma(&k2, n2, s0),
				sig: ref_ma(&k3, n3, z()),
				c1: RCross::default0(),
				c2: RCross::default0(),
			})
		}
		"MomentumIndex" => Box::new(MomIdx {
			src,
			p1: RPast::new(cu(cfg, "period1"), s0),
			p2: RPast::new(cu(cfg, "period2"), s0),
		}),
		"MoneyFlowIndex" => {
			let p = cu(cfg, "period");
			Box::new(Mfi {
				zone: cf(cfg, "zone"),
				period: p,
				prev: c0,
				flows: std::iter::repeat((z(), z())).take(p).collect(),
				d: Drift::new(C_INTEGRAL, p, z()),
				cu: RCross::default0(),
				cl: RCross::default0(),
			})
		}
		"ParabolicSAR" => Box::new(Psar {
			af_step: cf(cfg, "af_step"),
			af_max: cf(cfg, "af_max"),
			trend: 1,
			inc: 1.0,
			low: c0[2].v,
			high: c0[1].v,
			sar: c0[2].v,
			prev: c0,
			prev_trend: 0,
			lost: false,
			mag: c0[1].v.abs(),
			sar_exact: true,
		}),
		"PivotReversalStrategy" => {
			let (l, r) = (cu(cfg, "left"), cu(cfg, "right"));
			Box::new(PivotRev {
				right: r,
				ph: RReversal::new(l, r),
				pl: RReversal::new(l, r),
				w: std::iter::repeat(c0).take(r).collect(),
				hprice: 0.0,
				lprice: 0.0,
			})
		}
		"PriceChannelStrategy" => {
			let p = cu(cfg, "period");
			Box::new(PriceChannel {
				sigma: cf(cfg, "sigma"),
				hi: RSel::new(p, c0[1].v),
				lo: RSel::new(p, c0[2].v),
			})
		}
		"RelativeStrengthIndex" => {
			let (k, n) = cma(cfg, "ma");
			let zone = cf(cfg, "zone");
			Box::new(Rsi {
				src,
				zone,
				prev: s0,
				pos: ref_ma(&k, n, z()),
				neg: ref_ma(&k, n, z()),
				cu: RCross::new(T::exact(0.5), T::exact(crate::sut::vt(1.0 - zone))),
				cl: RCross::new(T::exact(0.5), T::exact(zone)),
				perturbed: false,
			})
		}
		"RelativeVigorIndex" => {
			let (p1, p2) = (cu(cfg, "period1"), cu(cfg, "period2"));
			let (k, n) = cma(cfg, "signal");
			let hl = c0[1].sub(c0[2]);
			Box::new(Rvi {
				zone: cf(cfg, "zone"),
				prev_close: c0[3],
				sw1: RWeighted::swma(p2, z()),
				sm1: RSma::new(p1, z()),
				sw2: RWeighted::swma(p2, hl),
				sm2: RSma::new(p1, hl),
				sig: ref_ma(&k, n, z()),
				cross: RCross::default0(),
				moved: hl.v != 0.0,
			})
		}
		"SMIErgodicIndicator" => {
			let (k, n) = cma(cfg, "signal");
			Box::new(Smi {
				src,
				zone: cf(cfg, "zone"),
				tsi: RTsi::new(cu(cfg, "period2"), cu(cfg, "period1"), s0),
				sig: ref_ma(&k, n, z()),
				cross: RCross::default0(),
			})
		}
		"StochasticOscillator" => {
			let p = cu(cfg, "period");
			let (k1, n1) = cma(cfg, "ma");
			let (k2, n2) = cma(cfg, "signal");
			let k0 = if c0[1].v == c0[2].v { T::exact(0.5) } else { c0[3].sub(c0[2]).div(c0[1].sub(c0[2])) };
			Box::new(Stoch {
				zone: cf(cfg, "zone"),
				hi: RSel::new(p, c0[1].v),
				lo: RSel::new(p, c0[2].v),
				ma1: ref_ma(&k1, n1, k0),
				ma2: ref_ma(&k2, n2, k0),
				a1: RCross::default0(),
				u1: RCross::default0(),
				a2: RCross::default0(),
				u2: RCross::default0(),
				x: RCross::default0(),
			})
		}
		"TrendStrengthIndex" => {
			let p = cu(cfg, "period");
			let zone = cf(cfg, "zone");
			Box::new(TrendStrength {
				src,
				zone,
				ro: cu(cfg, "reverse_offset"),
				period: p,
				w: std::iter::repeat(s0).take(p).collect(),
				wma: RWeighted::wma(p, s0),
				d: Drift::new(C_SMA, p, s0),
				under: RCross::new(z(), T::exact(zone)),
				above: RCross::new(z(), T::exact(-zone)),
				rev: RRev::new(1, 2, z()),
				vals: VecDeque::new(),
			})
		}
		"Trix" => {
			let (k, n) = cma(cfg, "signal");
			Box::new(Trix {
				src,
				tma: RExp::new(ExpKind::Tma, cu(cfg, "period1"), s0),
				prev: s0,
				sig: ref_ma(&k, n, z()),
				rev: RRev::new(1, 1, z()),
				c1: RCross::default0(),
				c2: RCross::default0(),
			})
		}
		"TrueStrengthIndex" => Box::new(TrueSi {
			src,
			zone: cf(cfg, "zone"),
			tsi: RTsi::new(cu(cfg, "period2"), cu(cfg, "period1"), s0),
			ema: REma::ema(cu(cfg, "period3"), z()),
			under: RCross::default0(),
			above: RCross::default0(),
			c1: RCross::default0(),
			c2: RCross::default0(),
		}),
		"WoodiesCCI" => Box::new(Woodies {
			src,
			lag: cu(cfg, "s1_lag") as i64,
			turbo: RCci::new(cu(cfg, "period1"), s0),
			trend: RCci::new(cu(cfg, "period2"), s0),
			cross: RCross::default0(),
			count: Some(0),
		}),
		_ => return None,
	})
}
