//! C15 — moving averages are averages: replica groups fed related streams (affine images, sums, constants,
//! impulses); algebraic relations between the runs with the tracked allowance.

use crate::common::*;
use crate::feed::{self, FaultCount, FeedCfg};
use crate::meng::{self, MCase};
use crate::refm;
use crate::rng::Rng;
use crate::sut::{self, In, Out, Params, MA_KINDS, PMAX};
use crate::tracked::U;
use serde::{Deserialize, Serialize};
use serde_json::json;

#[derive(Clone, Debug, Serialize, Deserialize)]
pub struct Case {
	pub sut: String,
	pub params: Params,
	/// 0 affine, 1 constant, 2 range, 3 superposition, 4 impulse response
	pub law: u8,
	pub x: Vec<In>,
	pub y: Vec<In>,
	pub a: Fx,
	pub b: Fx,
	pub lead: u32,
	#[serde(default)]
	pub feed_faults: std::collections::BTreeMap<String, u64>,
}

pub struct C15;

const LAWS: [&str; 5] = ["affine", "constant", "range", "superposition", "impulse"];

fn kind_name(c: &Case) -> String {
	match &c.params {
		Params::Ma(k, _) => MA_KINDS[*k as usize % 15].to_string(),
		_ => c.sut.clone(),
	}
}
fn nonneg_weights(c: &Case) -> bool {
	match kind_name(c).as_str() {
		"SMA" | "WMA" | "SWMA" | "TRIMA" | "EMA" | "DMA" | "TMA" | "RMA" | "WSMA" | "SMM" | "Vidya" | "VWMA" => true,
		"Conv" => matches!(&c.params, Params::Weights(w) if w.iter().all(|x| x.0 >= 0.0)),
		_ => false,
	}
}
fn linear(c: &Case) -> bool {
	!matches!(kind_name(c).as_str(), "SMM" | "Vidya" | "VWMA")
}

fn run(c: &Case, stream: &[In]) -> Option<Vec<f64>> {
	let m = MCase {
		sut: c.sut.clone(),
		params: c.params.clone(),
		stream: stream.to_vec(),
		alt: vec![],
		ops: vec![],
		feed_faults: Default::default(),
		first_chunk: 0,
		cfg: None,
	};
	let f = meng::factory(&m)?;
	meng::run_a(&f, stream).ok().map(|o| o.iter().map(|x| x.f(0)).collect())
}

fn map_in(x: &In, f: impl Fn(f64) -> f64) -> In {
	match x {
		In::V(v) => In::v(f(v.0)),
		In::P(v, w) => In::p(f(v.0), w.0),
		o => *o,
	}
}

/// documented weight profile (impulse response) of a kind, age 0 = the step at which the impulse arrives
fn profile(kind: &str, n: usize, len: usize, weights: Option<&[f64]>) -> Option<Vec<f64>> {
	let mut p = vec![0.0; len];
	let nf = n as f64;
	let ema = |alpha: f64, len: usize| -> Vec<f64> { (0..len).map(|k| alpha * (1.0 - alpha).powi(k as i32)).collect() };
	let conv = |a: &[f64], b: &[f64], len: usize| -> Vec<f64> {
		let mut o = vec![0.0; len];
		for (i, x) in a.iter().enumerate() {
			if *x == 0.0 {
				continue;
			}
			for (j, y) in b.iter().enumerate() {
				if i + j < len {
					o[i + j] += x * y;
				}
			}
		}
		o
	};
	let boxp = |m: usize| -> Vec<f64> { (0..len).map(|k| if k < m { 1.0 / m as f64 } else { 0.0 }).collect() };
	let wmap = |m: usize| -> Vec<f64> {
		let s = (m * (m + 1)) as f64 / 2.0;
		(0..len).map(|k| if k < m { (m - k) as f64 / s } else { 0.0 }).collect()
	};
	match kind {
		"SMA" => p = boxp(n),
		"WMA" => p = wmap(n),
		"SWMA" => {
			let s: f64 = (0..n).map(|j| (j + 1).min(n - j) as f64).sum();
			for j in 0..n.min(len) {
				p[j] = (j + 1).min(n - j) as f64 / s;
			}
		}
		"TRIMA" => p = conv(&boxp(n), &boxp(n), len),
		"EMA" => p = ema(2.0 / (nf + 1.0), len),
		"RMA" => p = ema(1.0 / nf, len),
		"WSMA" => p = ema(2.0 / (2.0 * nf), len),
		"DMA" => {
			let e = ema(2.0 / (nf + 1.0), len);
			p = conv(&e, &e, len);
		}
		"TMA" => {
			let e = ema(2.0 / (nf + 1.0), len);
			p = conv(&conv(&e, &e, len), &e, len);
		}
		"DEMA" => {
			let e = ema(2.0 / (nf + 1.0), len);
			let d = conv(&e, &e, len);
			p = (0..len).map(|k| 2.0 * e[k] - d[k]).collect();
		}
		"TEMA" => {
			let e = ema(2.0 / (nf + 1.0), len);
			let d = conv(&e, &e, len);
			let t = conv(&d, &e, len);
			p = (0..len).map(|k| 3.0 * (e[k] - d[k]) + t[k]).collect();
		}
		"HMA" => {
			let inner: Vec<f64> = {
				let a = wmap(n / 2);
				let b = wmap(n);
				(0..len).map(|k| 2.0 * a[k] - b[k]).collect()
			};
			p = conv(&inner, &wmap(((nf).sqrt() as usize).max(1)), len);
		}
		"LinReg" => {
			let xbar = -(nf - 1.0) / 2.0;
			let sxx = nf * (nf * nf - 1.0) / 12.0;
			for j in 0..n.min(len) {
				p[j] = 1.0 / nf + (-(j as f64) - xbar) * (0.0 - xbar) / sxx;
			}
		}
		"Conv" => {
			let w = weights?;
			let s: f64 = w.iter().sum();
			for (j, x) in w.iter().rev().enumerate().take(len) {
				p[j] = x / s;
			}
		}
		_ => return None,
	}
	Some(p)
}

impl Check for C15 {
	type Case = Case;
	fn id(&self) -> &'static str {
		"C15"
	}
	fn runs(&self, tier: Tier) -> u64 {
		match tier {
			Tier::Quick => 17 * 5 * 600,
			Tier::Thorough => 17 * 5 * 12_000,
		}
	}
	fn generate(&self, root: &Rng, i: u64, tier: Tier) -> Case {
		let run = root.sub_i("run", i);
		let mut r = run.sub("config");
		let kind = (i % 17) as usize; // 15 MA kinds, Conv, VWMA
		let law = ((i / 17) % 5) as u8;
		let k = i / 85;
		let hi = (PMAX - 1).min(if tier == Tier::Thorough { 400 } else { 254 });
		let stratify = law == 4; // impulse response: every length
		let pick = |r: &mut Rng, lo: u64, hi: u64| -> u64 {
			if stratify {
				lo + k % (hi - lo + 1)
			} else {
				match r.below(8) {
					0 => lo,
					1 => hi,
					2 | 3 => r.range(lo, hi.min(lo + 12)),
					_ => r.range(lo, hi),
				}
			}
		};
		let (sut, params) = if kind < 15 {
			let (lo, hi2) = match MA_KINDS[kind] {
				"HMA" | "LinReg" => (2, hi),
				"WSMA" => (1, (PMAX / 2).min(hi)),
				_ => (1, hi),
			};
			("MAInstance".to_string(), Params::Ma(kind as u8, pick(&mut r, lo, hi2)))
		} else if kind == 15 {
			let n = pick(&mut r, 1, hi) as usize;
			let style = r.below(4);
			let mut w: Vec<Fx> = (0..n)
				.map(|j| {
					Fx(sut::vt(match style {
						0 => 1.0 + j as f64,
						1 | 3 => r.unit() + 0.05,
						_ => if law == 2 { r.unit() } else { r.unit() * 2.0 - 0.5 },
					}))
				})
				.collect();
			if style == 3 && n >= 2 {
				// lagged / sparse kernels: exact zero weights at the newest end, the oldest end and inside
				let keep = r.usize_below(n);
				let z_new = r.usize_below(n.min(4));
				let z_old = r.usize_below(n.min(4));
				for (j, x) in w.iter_mut().enumerate() {
					if j != keep && (j >= n - z_new || j < z_old || r.chance(0.15)) {
						*x = Fx(0.0);
					}
				}
			}
			("Conv".to_string(), Params::Weights(w))
		} else {
			("VWMA".to_string(), Params::Len(pick(&mut r, 1, hi)))
		};
		let n = params.len() as usize;
		let len = (30 + r.usize_below(if tier == Tier::Quick { 400 } else { 1500 })).max(2 * n + 5);
		let mut fc = FaultCount::new();
		let fault_free = k % 3 == 0;
		let mut cfg = FeedCfg::swarm(&mut run.sub("feedcfg"), n, fault_free);
		cfg.scale_exp = cfg.scale_exp.clamp(-4, 4);
		let xs = feed::values(&mut run.sub("x"), len, &cfg, &mut fc);
		let ys = feed::values(&mut run.sub("y"), len, &cfg, &mut FaultCount::new());
		let vol = {
			let mut c2 = cfg.clone();
			c2.signed = false;
			c2.integer = false;
			let mut v = feed::values(&mut run.sub("vol"), len, &c2, &mut FaultCount::new());
			// candles without trades: exactly zero volume inside windows that also hold volume
			if sut == "VWMA" && !fault_free && k % 2 == 1 {
				let mut rz = run.sub("zero_volume");
				for w in v.iter_mut().skip(1) {
					if rz.chance(0.15) {
						*w = 0.0;
					}
				}
				*fc.entry("feed:zero_volume".into()).or_insert(0) += 1;
			}
			v
		};
		let mk = |v: &[f64]| -> Vec<In> {
			if sut == "VWMA" {
				v.iter().zip(&vol).map(|(x, w)| In::p(*x, *w)).collect()
			} else {
				feed::to_in_vals(v)
			}
		};
		// the last two factors are powers of two far from 1 (2^-80, 2^70): scaling by them is exact, so every average must
		// commute with it bit for bit - unless a constant of absolute size hides in the method
		let a = [2.0, -1.0, 0.5, -3.25, 1e3, 1e-3, 1.0, -0.125, 8.271806125530277e-25, 1.1805916207174113e21][r.usize_below(10)];
		let b = if a < 1e-20 || a > 1e20 { 0.0 } else { [0.0, 1.0, -7.5, 1e4, -1e-2, 100.0][r.usize_below(6)] };
		let (x, y) = (mk(&xs), mk(&ys));
		Case {
			sut,
			params,
			law,
			x,
			y,
			a: Fx(a),
			b: Fx(b),
			lead: r.below(n as u64 + 3) as u32,
			feed_faults: fc,
		}
	}
	fn execute(&self, c: &Case, stats: &mut Stats) -> Vec<Violation> {
		let mut vs = Vec::new();
		let kind = kind_name(c);
		stats.suts.insert(kind.clone());
		for (k, v) in &c.feed_faults {
			stats.fault_n(k, *v);
		}
		let n = c.params.len();
		let law = LAWS[c.law as usize % 5];
		stats.cover(format!("{kind}|{}|{law}", meng::len_class(n)));
		stats.nontrivial = true;
		let tolc = |t: usize, m: f64| 2048.0 * U * (n as f64 + t as f64) * m;
		let mag = |s: &[In], t: usize| s[..=t].iter().fold(0.0f64, |m, x| m.max(x.val().abs()));
		macro_rules! fail {
			($pred:expr, $t:expr, $($arg:tt)*) => {{
				vs.push(Violation::new("C15", &kind, $pred, $t, format!($($arg)*)).tag("length", n).tag("law", law));
				return vs;
			}};
		}
		match c.law {
			0 => {
				let (a, b) = (c.a.0, c.b.0);
				let xa: Vec<In> = c.x.iter().map(|x| map_in(x, |v| a * v + b)).collect();
				let (Some(fx), Some(fxa)) = (run(c, &c.x), run(c, &xa)) else { return vs };
				stats.ticks += 2 * fx.len() as u64;
				stats.fault("replica:affine_image");
				// a power of two far from 1 and no shift: every IEEE operation commutes with the scaling as long as nothing
				// leaves the normal range, so the image run must equal the scaled run exactly - also for the methods whose
				// factor is ill-conditioned (Vidya, VWMA), which the allowance below has to exempt
				// (double precision only: in the value_type_f32 build 2^-80 times a rounding residue leaves the normal range)
				let mut pow2 = !cfg!(feature = "value_type_f32") && b == 0.0 && (a.abs() < 1e-20 || a.abs() > 1e20) && c.x.iter().all(|x| x.val() == 0.0 || (x.val().abs() > 1e-150 && x.val().abs() < 1e150));
				for t in 0..fx.len() {
					let want = a * fx[t] + b;
					if pow2 {
						if !fx[t].is_finite() || !fxa[t].is_finite() || (fx[t] != 0.0 && !(fx[t].abs() > 1e-200 && fx[t].abs() < 1e200)) {
							pow2 = false;
						} else if fxa[t] != want {
						// (compared as numbers: the image a*x+0 turns a -0.0 input into +0.0, so the sign of a zero result may differ)
							fail!("power_of_two_scaling_exact", t, "f({a}*x) = {:e} at step {t}, {a}*f(x) = {want:e}: scaling by a power of two is exact, the two must be equal", fxa[t]);
						} else {
							stats.probe("power_of_two_scaling_bit_exact");
						}
					}
					let m = a.abs() * mag(&c.x, t) + b.abs();
					let tol = tolc(t, m) + 4.0 * U * (a.abs() * fx[t].abs() + b.abs());
					if fx[t].is_finite() && fxa[t].is_finite() && (fxa[t] - want).abs() > tol {
						// Vidya's factor is a ratio of running sums: ill-conditioned on flats (DESIGN.md §3.3)
						if kind == "Vidya" || kind == "VWMA" {
							stats.exempt += 1;
							stats.probe("ill_conditioned_factor_exempt");
							break;
						}
						fail!("affine_equivariance", t, "f({a}*x+{b}) = {:e} at step {t}, {a}*f(x)+{b} = {want:e} (allowance {tol:e})", fxa[t]);
					}
					stats.checked += 1;
				}
			}
			1 => {
				let cst = c.x[0];
				let s: Vec<In> = std::iter::repeat(cst).take(c.x.len()).collect();
				let Some(f) = run(c, &s) else { return vs };
				stats.ticks += f.len() as u64;
				stats.fault("feed:constant");
				let cv = cst.val();
				let tol = 2048.0 * U * n as f64 * cv.abs();
				let mut exact = true;
				for (t, y) in f.iter().enumerate() {
					if (y - cv).abs() > tol || y.is_nan() {
						if kind == "VWMA" && cst.pair().1 == 0.0 {
							break; // zero volume: undefined
						}
						fail!("reproduces_constant", t, "fed the constant {cv:e}: output {y:e} at step {t} (allowance {tol:e}, no growth with the number of steps)");
					}
					if *y != cv {
						exact = false;
					}
					stats.checked += 1;
				}
				stats.probe(if exact { "constant_reproduced_bit_exactly" } else { "constant_reproduced_within_allowance_only" });
			}
			2 => {
				if !nonneg_weights(c) {
					stats.probe("range_law_not_applicable_signed_weights");
					return vs;
				}
				let Some(f) = run(c, &c.x) else { return vs };
				stats.ticks += f.len() as u64;
				let (mut lo, mut hi) = (c.x[0].val(), c.x[0].val());
				for (t, y) in f.iter().enumerate() {
					lo = lo.min(c.x[t].val());
					hi = hi.max(c.x[t].val());
					let mut tol = tolc(t, mag(&c.x, t));
					if kind == "VWMA" {
						// a quotient of two running sums: residue of the numerator (scale n * max|v*w| of the history)
						// is divided by the CURRENT total volume of the window
						let mvw = c.x[..=t].iter().fold(0.0f64, |m, x| m.max((x.pair().0 * x.pair().1).abs()));
						let from = (t + 1).saturating_sub(n as usize);
						let den: f64 = c.x[from..=t].iter().map(|x| x.pair().1).sum::<f64>() + (n as usize).saturating_sub(t + 1) as f64 * c.x[0].pair().1;
						if !(den > 0.0) || !y.is_finite() {
							stats.exempt += 1;
							continue;
						}
						let mw = c.x[..=t].iter().fold(0.0f64, |m, x| m.max(x.pair().1.abs()));
						// ... and the denominator carries its own residue (scale n * max volume of the history)
						tol += tolc(t, mvw) * n as f64 / den + y.abs() * tolc(t, mw) * n as f64 / den;
					}
					if !(*y >= lo - tol && *y <= hi + tol) {
						fail!("range_preserving", t, "output {y:e} at step {t} leaves the interval [{lo:e}, {hi:e}] of the values given so far (allowance {tol:e})");
					}
					stats.checked += 1;
				}
			}
			3 => {
				if !linear(c) {
					stats.probe("superposition_not_applicable_nonlinear_kind");
					return vs;
				}
				let xy: Vec<In> = c.x.iter().zip(&c.y).map(|(x, y)| In::v(x.val() + y.val())).collect();
				// the sum must be exactly representable for the relation to be about the filter only
				let exact = c.x.iter().zip(&c.y).zip(&xy).all(|((x, y), s)| s.val() - x.val() == y.val() && s.val() - y.val() == x.val());
				let (Some(fx), Some(fy), Some(fxy)) = (run(c, &c.x), run(c, &c.y), run(c, &xy)) else { return vs };
				stats.ticks += 3 * fx.len() as u64;
				stats.fault("replica:sum_of_streams");
				for t in 0..fx.len() {
					let m = mag(&c.x, t) + mag(&c.y, t);
					let tol = tolc(t, m) * if exact { 1.0 } else { 2.0 } + 4.0 * U * m;
					if fxy[t].is_finite() && (fxy[t] - (fx[t] + fy[t])).abs() > tol {
						fail!("superposition", t, "f(x+y) = {:e}, f(x)+f(y) = {:e} at step {t} (allowance {tol:e})", fxy[t], fx[t] + fy[t]);
					}
					stats.checked += 1;
				}
			}
			_ => {
				if matches!(kind.as_str(), "SMM" | "Vidya" | "VWMA") {
					stats.probe("impulse_not_applicable_nonlinear_kind");
					return vs;
				}
				let nn = n as usize;
				let lead = c.lead as usize;
				let tail = 3 * nn + 25;
				let mut s: Vec<In> = vec![In::v(0.0); lead + 1];
				s.push(In::v(1.0));
				s.extend(std::iter::repeat(In::v(0.0)).take(tail));
				let weights: Option<Vec<f64>> = match &c.params {
					Params::Weights(w) => Some(w.iter().map(|x| x.0).collect()),
					_ => None,
				};
				let Some(p) = profile(&kind, nn, tail + 1, weights.as_deref()) else { return vs };
				let Some(f) = run(c, &s) else { return vs };
				stats.ticks += f.len() as u64;
				stats.fault("feed:impulse");
				for t in 0..f.len() {
					let want = if t > lead { p[t - lead - 1] } else { 0.0 };
					let tol = 4096.0 * U * (nn as f64 + t as f64);
					if (f[t] - want).abs() > tol {
						fail!("impulse_response", t, "impulse at step {}: output {:e} at step {t}, documented weight {want:e} (age {})", lead + 1, f[t], t as i64 - lead as i64 - 1);
					}
					stats.checked += 1;
				}
				let _ = refm::C_SMA;
			}
		}
		stats.log(vs.len() as u64 + c.law as u64);
		vs
	}
	fn shrink(&self, c: &Case) -> Vec<Case> {
		let mut v = Vec::new();
		let n = c.x.len();
		for keep in [n / 2, n - 1] {
			if keep >= 2 && keep < n {
				let mut k = c.clone();
				k.x.truncate(keep);
				k.y.truncate(keep);
				v.push(k);
			}
		}
		match &c.params {
			Params::Ma(k, n) if *n > 2 => {
				let mut q = c.clone();
				q.params = Params::Ma(*k, n / 2 + 1);
				v.push(q);
			}
			Params::Len(n) if *n > 1 => {
				let mut q = c.clone();
				q.params = Params::Len(n / 2);
				v.push(q);
			}
			Params::Weights(w) if w.len() > 1 => {
				let mut q = c.clone();
				q.params = Params::Weights(w[..w.len() / 2].to_vec());
				v.push(q);
			}
			_ => {}
		}
		if c.lead > 0 {
			let mut q = c.clone();
			q.lead = 0;
			v.push(q);
		}
		v
	}
	fn rule(&self) -> String {
		"One evaluation = one replica group for one MA kind (15 kinds of the MA constructor, Conv, VWMA) and one law: (0) affine image a*x+b with a in {2,-1,.5,-3.25,1e3,1e-3,1,-.125} \
		 => outputs related by the same map within the allowance (where Vidya / VWMA exceed it their ill-conditioned factor is exempt and counted), plus the factors 2^-80 and 2^70 without \
		 shift, for which the image run must EQUAL the scaled run (scaling by a power of two commutes with every IEEE operation inside the normal range; every kind, no exemption; \
		 double precision builds); (1) constant input => the constant within 2*D(0), no growth with the number of steps (bit-exact reproduction is counted); (2) range: \
		 non-negative-weight kinds stay inside [min,max] of all values given so far; (3) superposition f(x+y) = f(x)+f(y) for the linear kinds; (4) impulse response = documented \
		 weight profile (closed forms: box, linear, symmetric, triangle, geometric and their convolutions / signed combinations, LinReg's least-squares weights, Conv's reversed \
		 weights), the length stratified over EVERY length 1..=254 in thorough. Coverage tuple = (kind, length class, law)."
			.into()
	}
	fn assumptions(&self) -> Vec<String> {
		vec![
			"allowance 2048*u*(n+t)*M (twice the largest frozen drift constant)".into(),
			"'reproduces a constant exactly' is read as: the constant is a fixed point up to the rounding of the documented normalisation (DESIGN.md §4 C15)".into(),
		]
	}
	fn components(&self) -> serde_json::Value {
		json!({"real": ["MA::init for all 15 kinds (MAInstance), Conv, VWMA"], "stub": ["related-stream generator", "closed-form weight profiles"]})
	}
}
