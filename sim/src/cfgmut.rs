//! Generic configuration mutator: indicator configurations are produced by mutating the serialized default
//! configuration by field type (period / float / Source / MA(kind, period) / bool) and deserializing it back.

use crate::common::guarded;
use crate::ieng::IndInfo;
use crate::rng::Rng;
use crate::simfmt::Value;
use crate::sut::{In, PMAX};

pub const MA_SERDE_NAMES: [&str; 15] = [
	"sma", "wma", "hma", "rma", "ema", "dma", "dema", "tma", "tema", "wsma", "smm", "swma", "trima", "lin_reg", "vidya",
];
pub const SOURCE_SERDE_NAMES: [&str; 8] = ["close", "open", "high", "low", "hl2", "tp", "volume", "volumed_price"];

pub fn is_period(v: &Value) -> bool {
	matches!(v, Value::U8(_) | Value::U16(_) | Value::U32(_) | Value::U64(_))
}

pub fn set_period(v: &mut Value, n: u64) {
	*v = match v {
		Value::U8(_) => Value::U8(n.min(255) as u8),
		Value::U16(_) => Value::U16(n.min(65535) as u16),
		Value::U32(_) => Value::U32(n.min(u64::from(u32::MAX)) as u32),
		_ => Value::U64(n),
	};
}

pub fn set_float(v: &mut Value, x: f64) {
	*v = match v {
		Value::F32(_) => Value::F32((x as f32).to_bits()),
		_ => Value::F64(x.to_bits()),
	};
}

fn small_period(r: &mut Rng, hi: u64) -> u64 {
	// one draw in twenty: the upper half of an 8-bit period range (sign bit of an i8, PeriodType::MAX - 1), whatever the cap
	if r.below(20) == 0 {
		return [127u64, 128, 129, 200, 253, 254][r.usize_below(6)].min(PMAX - 1);
	}
	match r.below(10) {
		0 => 1,
		1 => 2,
		2 => 3,
		3..=6 => r.range(2, 30.min(hi)),
		7 | 8 => r.range(2, 90.min(hi)),
		_ => r.range(2, hi),
	}
}

/// one random mutation pass over a configuration tree
pub fn mutate(cfg: &Value, r: &mut Rng, intensity: f64, max_period: u64, same_kind: Option<usize>) -> Value {
	let mut t = cfg.clone();
	let hi = max_period.min(PMAX - 1).max(2);
	t.walk_mut(&mut |v| {
		match v {
			Value::NewtypeVariant(e, kind, inner) if e == "MA" => {
				if r.chance(intensity) {
					let k = same_kind.unwrap_or_else(|| r.usize_below(15));
					*kind = MA_SERDE_NAMES[k].to_string();
				} else if let Some(k) = same_kind {
					*kind = MA_SERDE_NAMES[k].to_string();
				}
				if r.chance(intensity) {
					let cap = if kind == "wsma" { hi.min(PMAX / 2) } else { hi };
					set_period(inner, small_period(r, cap).max(2));
				}
			}
			Value::UnitVariant(e, var) if e == "Source" => {
				if r.chance(intensity * 0.7) {
					// price sources mostly; volume-based ones rarely
					// single precision: price x volume reaches 1e19 on spikes and its squares overflow (not a rounding effect)
					let all = if cfg!(feature = "value_type_f32") { 7 } else { 8 };
					let k = if r.chance(0.1) { r.usize_below(all) } else { r.usize_below(6) };
					*var = SOURCE_SERDE_NAMES[k].to_string();
				}
			}
			Value::Bool(b) => {
				if r.chance(intensity) {
					*b = !*b;
				}
			}
			Value::F32(_) | Value::F64(_) => {
				if r.chance(intensity) {
					let x = v.as_f64().unwrap_or(0.0);
					let y = match r.below(6) {
						0 => x * 0.5,
						1 => x * 1.5,
						2 => x * 0.1,
						3 => (x * 2.0).min(1.0),
						4 => r.unit(),
						_ => x + 0.01,
					};
					set_float(v, y);
				}
			}
			_ => {}
		}
	});
	// plain period fields (not inside MA, which walk_mut visits too: those are handled above and again here,
	// which is harmless: both draws are valid periods)
	if let Value::Struct(_, fields) = &mut t {
		for (_, v) in fields.iter_mut() {
			if is_period(v) && r.chance(intensity) {
				set_period(v, small_period(r, hi));
			}
		}
	}
	t
}

/// a configuration that validate() accepts and that initialises on `first` without panicking;
/// falls back to the default configuration after `tries` attempts. Returns (cfg, was_mutated)
pub fn valid_cfg(info: &IndInfo, r: &mut Rng, first: &In, max_period: u64, tries: usize) -> (Value, bool) {
	let def = (info.default_cfg)();
	for _ in 0..tries {
		let same = if r.chance(0.75) { Some(r.usize_below(15)) } else { None };
		let intensity = [0.15, 0.4, 0.8][r.usize_below(3)];
		let c = mutate(&def, r, intensity, max_period, same);
		if c == def {
			continue;
		}
		if let Ok(Ok(true)) = guarded(|| (info.validate)(&c)) {
			if let Ok(Ok(_)) = guarded(|| (info.make)(&c, first)) {
				return (c, true);
			}
		}
	}
	(def, false)
}

/// set every period-like number of a configuration (plain fields and MA lengths) to `n`
pub fn shrink_periods(cfg: &mut Value, n: u64) {
	cfg.walk_mut(&mut |v| {
		if is_period(v) {
			set_period(v, n);
		}
	});
}

/// largest period-like number in a configuration (for window-class coverage and stream lengths)
pub fn max_period_in(cfg: &Value) -> u64 {
	let mut m = 1;
	cfg.walk(&mut |v| {
		if is_period(v) {
			m = m.max(v.as_u64().unwrap_or(0));
		}
	});
	m
}

/// names of the MA kinds used by a configuration
pub fn ma_kinds_in(cfg: &Value) -> Vec<String> {
	let mut k = Vec::new();
	cfg.walk(&mut |v| {
		if let Value::NewtypeVariant(e, kind, _) = v {
			if e == "MA" {
				k.push(kind.clone());
			}
		}
	});
	k
}
