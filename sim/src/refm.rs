//! Reference models of the yata methods, written from the documentation (DESIGN.md Appendix A), operating on
//! tracked numbers so that the same models serve the method checks (exact inputs) and the indicator references
//! (inputs that carry an error bound).

use crate::sut::{In, Out, Params, T_ACTION, T_CANDLE, T_FLOAT, T_INT, T_OPT_CANDLE};
use crate::tracked::{sum, wsum, Tri, ETA, T, U};
use std::collections::VecDeque;
use yata::core::Action;

// ------------------------------------------------------------------------------------------------
// drift constants c_m (DESIGN.md §3.2): 10 x the worst |y - v| / (u (n+t) S) observed on the unchanged tree over
// all lengths and feed regimes at t <= 10^4 (4 seeds of the thorough tier), rounded up to a power of two, never
// below 4. FROZEN on 2026-09-26 - never adapted at run time, never raised to silence an alarm.

pub const C_SMA: f64 = 4.0;
pub const C_WMA: f64 = 128.0;
pub const C_SWMA: f64 = 64.0;
pub const C_LINREG: f64 = 512.0;
pub const C_CONV: f64 = 16.0;
pub const C_VWMA: f64 = 8.0;
pub const C_INTEGRAL: f64 = 8.0;
pub const C_LINVOL: f64 = 4.0;
pub const C_STDEV: f64 = 16.0;
pub const C_MAD: f64 = 8.0;
pub const C_MEDAD: f64 = 4.0;
pub const C_EMA: f64 = 16.0;
pub const C_CUMUL: f64 = 4.0;
pub const C_VIDYA_SUMS: f64 = 8.0;

/// history magnitude and step counter of one running accumulator
#[derive(Clone, Debug)]
pub struct Drift {
	pub c: f64,
	pub n: f64,
	pub t: f64,
	pub m: f64,
	/// all observed values were exactly known integer multiples of 2^lsb (i32::MAX: only zeros so far)
	pub lsb: i32,
	pub lattice: bool,
}

/// exponent of the lowest set bit of a finite non-zero double
fn lowest_bit_exponent(x: f64) -> i32 {
	let bits = x.to_bits();
	let exp = ((bits >> 52) & 0x7ff) as i32;
	let frac = bits & ((1u64 << 52) - 1);
	let (mant, e) = if exp == 0 { (frac, -1074) } else { (frac | (1u64 << 52), exp - 1075) };
	e + mant.trailing_zeros() as i32
}

impl Drift {
	/// Every partial sum of up to n + 2 of the observed values, taken in any order, is an integer multiple of the common
	/// grid 2^lsb and smaller than 2^mantissa grid units: a running sum kept by additions and subtractions carries no
	/// rounding at all, whatever the order of the operations (prices and volumes on a tick grid).
	pub fn lattice_exact(&self) -> bool {
		if !self.lattice {
			return false;
		}
		if self.lsb == i32::MAX {
			return true; // only zeros
		}
		let mant = if cfg!(feature = "value_type_f32") { 24 } else { 53 };
		let units = (self.n + 2.0) * self.m / 2f64.powi(self.lsb);
		units.is_finite() && units < 2f64.powi(mant) && self.lsb > -1000
	}
	pub fn history(&mut self, t: f64, m: f64) {
		self.t = self.t.max(t);
		self.m = self.m.max(m);
		// nothing is known about the grid of a history that was not observed
		self.lattice = false;
	}
	pub fn new(c: f64, n: usize, init: T) -> Self {
		let mut d = Drift {
			c,
			n: n as f64,
			t: 0.0,
			m: 0.0,
			lsb: i32::MAX,
			lattice: true,
		};
		d.observe(init);
		d.t = 0.0;
		d
	}
	#[inline]
	pub fn observe(&mut self, x: T) {
		self.t += 1.0;
		let m = x.mag();
		if m > self.m {
			self.m = m;
		}
		if x.e != 0.0 || !x.v.is_finite() {
			self.lattice = false;
		} else if x.v != 0.0 && self.lattice {
			self.lsb = self.lsb.min(lowest_bit_exponent(x.v));
		}
	}
	/// u (n + t) M  — the unit in which drift is measured
	#[inline]
	pub fn unit(&self) -> f64 {
		U * (self.n + self.t) * self.m
	}
	#[inline]
	pub fn d(&self) -> f64 {
		self.c * self.unit()
	}
	/// allowance without growth in t (recomputed-each-step methods)
	#[inline]
	pub fn d0(&self) -> f64 {
		self.c * U * self.n * self.m
	}
}

#[derive(Clone, Debug)]
pub struct Win {
	pub q: VecDeque<T>,
}
impl Win {
	pub fn new(n: usize, v: T) -> Self {
		Win {
			q: std::iter::repeat(v).take(n).collect(),
		}
	}
	/// push newest, return the element that left
	pub fn push(&mut self, x: T) -> T {
		let old = self.q.pop_front().unwrap_or(x);
		self.q.push_back(x);
		old
	}
	/// newest first
	pub fn newest_first(&self) -> impl Iterator<Item = T> + '_ {
		self.q.iter().rev().copied()
	}
	pub fn len(&self) -> usize {
		self.q.len()
	}
}

// ------------------------------------------------------------------------------------------------
// reference methods on tracked numbers

pub trait RMethod {
	fn next(&mut self, x: T) -> T;
	/// tell the model how long and how large the history of the instance it is compared with has been
	/// (late positions of long runs: the model itself was primed with the last window only)
	fn set_history(&mut self, _t: f64, _m: f64) {}
	/// the unit u(n+t)M of the last output, for calibration (0 when not applicable)
	fn unit(&self) -> f64 {
		0.0
	}
}

#[derive(Clone, Debug)]
pub struct RSma {
	w: Win,
	d: Drift,
}
impl RSma {
	pub fn new(n: usize, v: T) -> Self {
		RSma {
			w: Win::new(n, v),
			d: Drift::new(C_SMA, n, v),
		}
	}
	pub fn mean(&self) -> T {
		sum(self.w.q.iter().copied()).scale(1.0 / self.w.len() as f64).widen(self.d.d())
	}
}
impl RMethod for RSma {
	fn set_history(&mut self, t: f64, m: f64) {
		self.d.history(t, m);
	}
	fn next(&mut self, x: T) -> T {
		self.w.push(x);
		self.d.observe(x);
		self.mean()
	}
	fn unit(&self) -> f64 {
		self.d.unit()
	}
}

/// any fixed-weight window average with a drifting accumulator: weights[j] applies to age j (0 = newest)
#[derive(Clone, Debug)]
pub struct RWeighted {
	w: Win,
	weights: Vec<f64>,
	d: Drift,
	grow: bool,
	/// extra scale of the output relative to M (Conv: sum|w| / |sum w|)
	scale: f64,
}
impl RWeighted {
	pub fn new(weights: Vec<f64>, c: f64, v: T, grow: bool) -> Self {
		let n = weights.len();
		RWeighted {
			w: Win::new(n, v),
			weights,
			d: Drift::new(c, n, v),
			grow,
			scale: 1.0,
		}
	}
	pub fn wma(n: usize, v: T) -> Self {
		let s = (n * (n + 1)) as f64 / 2.0;
		Self::new((0..n).map(|j| (n - j) as f64 / s).collect(), C_WMA, v, true)
	}
	pub fn swma(n: usize, v: T) -> Self {
		let ws: Vec<f64> = (0..n).map(|j| (j + 1).min(n - j) as f64).collect();
		let s: f64 = ws.iter().sum();
		Self::new(ws.into_iter().map(|w| w / s).collect(), C_SWMA, v, true)
	}
	pub fn linreg(n: usize, v: T) -> Self {
		// value at the newest abscissa (0) of the least-squares line through (-j, x_{t-j})
		let nf = n as f64;
		let xbar = -(nf - 1.0) / 2.0;
		let sxx = nf * (nf * nf - 1.0) / 12.0;
		Self::new(
			(0..n).map(|j| 1.0 / nf + (-(j as f64) - xbar) * (0.0 - xbar) / sxx).collect(),
			C_LINREG,
			v,
			true,
		)
	}
	/// Conv: `weights` as given by the user (last weight on the newest value); recomputed each step
	pub fn conv(user: &[f64], v: T) -> Option<Self> {
		let s: f64 = user.iter().sum();
		if s == 0.0 || !s.is_finite() {
			return None;
		}
		let abs: f64 = user.iter().map(|w| w.abs()).sum();
		// scale of the output: M * sum|w| / |sum w|
		let mut r = Self::new(user.iter().rev().map(|w| w / s).collect(), C_CONV, v, false);
		r.scale = (abs / s.abs()).max(1.0);
		r.d.c = C_CONV * r.scale;
		Some(r)
	}
}
impl RMethod for RWeighted {
	fn set_history(&mut self, t: f64, m: f64) {
		self.d.history(t, m);
	}
	fn next(&mut self, x: T) -> T {
		self.w.push(x);
		self.d.observe(x);
		let v = wsum(self.weights.iter().copied().zip(self.w.newest_first()));
		v.widen(if self.grow { self.d.d() } else { self.d.d0() })
	}
	fn unit(&self) -> f64 {
		if self.grow {
			self.d.unit()
		} else {
			U * self.d.n * self.d.m * self.scale
		}
	}
}

#[derive(Clone, Debug)]
pub struct RTrima {
	a: RSma,
	b: RSma,
}
impl RTrima {
	pub fn new(n: usize, v: T) -> Self {
		RTrima {
			a: RSma::new(n, v),
			b: RSma::new(n, v),
		}
	}
}
impl RMethod for RTrima {
	fn set_history(&mut self, t: f64, m: f64) {
		self.a.set_history(t, m);
		self.b.set_history(t, m);
	}
	fn next(&mut self, x: T) -> T {
		let m = self.a.next(x);
		self.b.next(m)
	}
	fn unit(&self) -> f64 {
		self.a.unit()
	}
}

#[derive(Clone, Debug)]
pub struct RHma {
	w1: RWeighted,
	w2: RWeighted,
	w3: RWeighted,
}
impl RHma {
	pub fn new(n: usize, v: T) -> Self {
		let s = (n as f64).sqrt() as usize;
		RHma {
			w1: RWeighted::wma(n / 2, v),
			w2: RWeighted::wma(n, v),
			w3: RWeighted::wma(s.max(1), v),
		}
	}
}
impl RMethod for RHma {
	fn set_history(&mut self, t: f64, m: f64) {
		self.w1.set_history(t, m);
		self.w2.set_history(t, m);
		self.w3.set_history(t, 3.0 * m);
	}
	fn next(&mut self, x: T) -> T {
		let a = self.w1.next(x);
		let b = self.w2.next(x);
		let inner = a.scale(2.0).sub(b);
		self.w3.next(inner)
	}
	fn unit(&self) -> f64 {
		self.w2.unit()
	}
}

#[derive(Clone, Debug)]
pub struct RVwma {
	w: VecDeque<(T, T)>,
	dn: Drift,
	dd: Drift,
}
impl RVwma {
	pub fn new(n: usize, v: (T, T)) -> Self {
		RVwma {
			w: std::iter::repeat(v).take(n).collect(),
			dn: Drift::new(C_VWMA, n, v.0.mul(v.1)),
			dd: Drift::new(C_VWMA, n, v.1),
		}
	}
	pub fn next(&mut self, x: (T, T)) -> T {
		self.w.pop_front();
		self.w.push_back(x);
		self.dn.observe(x.0.mul(x.1));
		self.dd.observe(x.1);
		// running sums: every update rounds at the scale of the sum (n * M)
		let num = sum(self.w.iter().map(|(a, b)| a.mul(*b))).widen(self.dn.d() * self.dn.n);
		let den = sum(self.w.iter().map(|(_, b)| *b)).widen(self.dd.d() * self.dd.n);
		num.div(den)
	}
}

/// windowed running sum (Integral with n > 0, windowed ADI, LinearVolatility core)
#[derive(Clone, Debug)]
pub struct RRunSum {
	w: Win,
	d: Drift,
}
impl RRunSum {
	pub fn new(n: usize, v: T, c: f64) -> Self {
		RRunSum {
			w: Win::new(n, v),
			d: Drift::new(c, n, v),
		}
	}
}
impl RMethod for RRunSum {
	fn set_history(&mut self, t: f64, m: f64) {
		self.d.history(t, m);
	}
	fn next(&mut self, x: T) -> T {
		self.w.push(x);
		self.d.observe(x);
		if self.d.lattice_exact() {
			// exact in every order of evaluation: plain summation is exact too
			return T::new(self.w.q.iter().map(|x| x.v).sum::<f64>(), 0.0);
		}
		// scale of the output is n*M
		sum(self.w.q.iter().copied()).widen(self.d.d() * self.d.n)
	}
	fn unit(&self) -> f64 {
		self.d.unit() * self.d.n
	}
}

/// cumulative sum since construction (windowless Integral / ADI), Neumaier-compensated, incremental
#[derive(Clone, Debug)]
pub struct RCumSum {
	s: f64,
	c: f64,
	e_in: f64,
	n: f64,
	max_partial: f64,
}
impl RCumSum {
	pub fn new() -> Self {
		RCumSum {
			s: 0.0,
			c: 0.0,
			e_in: 0.0,
			n: 0.0,
			max_partial: 0.0,
		}
	}
}
impl RMethod for RCumSum {
	fn next(&mut self, x: T) -> T {
		if x.und() {
			self.e_in = f64::INFINITY;
			return T::UND;
		}
		let t = self.s + x.v;
		if self.s.abs() >= x.v.abs() {
			self.c += (self.s - t) + x.v;
		} else {
			self.c += (x.v - t) + self.s;
		}
		self.s = t;
		self.e_in += x.e;
		self.n += 1.0;
		let v = self.s + self.c;
		self.max_partial = self.max_partial.max(v.abs() + self.e_in).max(x.mag());
		T::new(v, self.e_in + C_CUMUL * U * self.n * self.max_partial)
	}
	fn unit(&self) -> f64 {
		U * self.n * self.max_partial
	}
}

#[derive(Clone, Debug)]
pub struct RPast {
	w: Win,
}
impl RPast {
	pub fn new(n: usize, v: T) -> Self {
		RPast { w: Win::new(n, v) }
	}
}
impl RMethod for RPast {
	fn next(&mut self, x: T) -> T {
		self.w.push(x)
	}
}

#[derive(Clone, Debug)]
pub struct RLinVol {
	prev: T,
	s: RRunSum,
}
impl RLinVol {
	pub fn new(n: usize, v: T) -> Self {
		let mut s = RRunSum::new(n, T::exact(0.0), C_LINVOL);
		// scale of the differences: up to 2M
		s.d.m = 2.0 * v.mag();
		RLinVol { prev: v, s }
	}
}
impl RMethod for RLinVol {
	fn set_history(&mut self, t: f64, m: f64) {
		self.s.d.history(t, 2.0 * m);
	}
	fn next(&mut self, x: T) -> T {
		let d = x.sub(self.prev).abs();
		self.prev = x;
		self.s.d.m = self.s.d.m.max(2.0 * x.mag());
		self.s.next(d)
	}
	fn unit(&self) -> f64 {
		self.s.unit()
	}
}

#[derive(Clone, Debug)]
pub struct RStDev {
	w: Win,
	d: Drift,
}
impl RStDev {
	pub fn new(n: usize, v: T) -> Self {
		RStDev {
			w: Win::new(n, v),
			d: Drift::new(C_STDEV, n, v),
		}
	}
	/// sample variance as a tracked number (the implementation's sqrt(|.|) is compared in variance space)
	pub fn next_var(&mut self, x: T) -> T {
		self.w.push(x);
		self.d.observe(x);
		let n = self.w.len() as f64;
		let mean = sum(self.w.q.iter().copied()).scale(1.0 / n);
		let ss = sum(self.w.q.iter().map(|x| {
			let d = T::new(x.v - mean.v, x.e + mean.e);
			d.mul(d)
		}));
		ss.scale(1.0 / (n - 1.0)).widen(self.d.d() * self.d.m * n / (n - 1.0))
	}
	pub fn var_unit(&self) -> f64 {
		let n = self.d.n;
		self.d.unit() * self.d.m * n / (n - 1.0)
	}
}

#[derive(Clone, Debug)]
pub struct RMeanAbsDev {
	w: Win,
	d: Drift,
	sma_d: Drift,
	init: T,
	/// some input so far differed from the construction value
	perturbed: bool,
}
impl RMeanAbsDev {
	pub fn new(n: usize, v: T) -> Self {
		RMeanAbsDev {
			w: Win::new(n, v),
			d: Drift::new(C_MAD, n, v),
			sma_d: Drift::new(C_SMA, n, v),
			init: v,
			perturbed: false,
		}
	}
	pub fn mean(&self) -> T {
		sum(self.w.q.iter().copied())
			.scale(1.0 / self.w.len() as f64)
			.widen(self.sma_d.d())
	}
}
impl RMethod for RMeanAbsDev {
	fn set_history(&mut self, t: f64, m: f64) {
		self.d.history(t, m);
		self.sma_d.history(t, m);
		self.perturbed = true;
	}
	fn next(&mut self, x: T) -> T {
		self.w.push(x);
		self.d.observe(x);
		self.sma_d.observe(x);
		if x.v.to_bits() != self.init.v.to_bits() || x.e != 0.0 || self.init.e != 0.0 {
			self.perturbed = true;
		}
		let n = self.w.len() as f64;
		let mean = sum(self.w.q.iter().copied()).scale(1.0 / n);
		sum(self.w.q.iter().map(|x| T::new((x.v - mean.v).abs(), x.e + mean.e)))
			.scale(1.0 / n)
			.widen(self.d.d())
	}
	fn unit(&self) -> f64 {
		self.d.unit()
	}
}

pub fn median_of(vals: &mut Vec<f64>) -> f64 {
	vals.sort_by(|a, b| a.partial_cmp(b).unwrap());
	let n = vals.len();
	if n % 2 == 1 {
		vals[n / 2]
	} else {
		(vals[n / 2] + vals[n / 2 - 1]) * 0.5
	}
}

#[derive(Clone, Debug)]
pub struct RMedianAbsDev {
	w: Win,
	d: Drift,
}
impl RMedianAbsDev {
	pub fn new(n: usize, v: T) -> Self {
		RMedianAbsDev {
			w: Win::new(n, v),
			d: Drift::new(C_MEDAD, n, v),
		}
	}
}
impl RMethod for RMedianAbsDev {
	fn set_history(&mut self, t: f64, m: f64) {
		self.d.history(t, m);
	}
	fn next(&mut self, x: T) -> T {
		self.w.push(x);
		self.d.observe(x);
		let n = self.w.len() as f64;
		let mut vals: Vec<f64> = self.w.q.iter().map(|x| x.v).collect();
		let emax = self.w.q.iter().map(|x| x.e).fold(0.0, f64::max);
		let med = median_of(&mut vals);
		sum(self.w.q.iter().map(|x| T::new((x.v - med).abs(), x.e + emax + U * med.abs())))
			.scale(1.0 / n)
			.widen(self.d.d0())
	}
	fn unit(&self) -> f64 {
		U * self.d.n * self.d.m
	}
}

#[derive(Clone, Debug)]
pub struct RCci {
	mad: RMeanAbsDev,
}
impl RCci {
	pub fn new(n: usize, v: T) -> Self {
		RCci {
			mad: RMeanAbsDev::new(n, v),
		}
	}
}
impl RMethod for RCci {
	fn set_history(&mut self, t: f64, m: f64) {
		self.mad.set_history(t, m);
	}
	fn next(&mut self, x: T) -> T {
		let mad = self.mad.next(x);
		let mean = self.mad.mean();
		// never-perturbed constant window: every term is exactly zero
		if !self.mad.perturbed {
			return T::exact(0.0);
		}
		x.sub(mean).div(mad)
	}
}

/// exponential kinds: y += alpha (x - y); error contracts: e' = (1-alpha) e + alpha e_x + c u M
#[derive(Clone, Debug)]
pub struct REma {
	pub alpha: f64,
	pub y: T,
	own: f64,
	m: f64,
}
impl REma {
	pub fn with_alpha(alpha: f64, v: T) -> Self {
		REma {
			alpha,
			y: v,
			own: 0.0,
			m: v.mag(),
		}
	}
	pub fn ema(n: usize, v: T) -> Self {
		Self::with_alpha(2.0 / (n as f64 + 1.0), v)
	}
	pub fn rma(n: usize, v: T) -> Self {
		Self::with_alpha(1.0 / n as f64, v)
	}
	pub fn wsma(n: usize, v: T) -> Self {
		Self::ema(2 * n - 1, v)
	}
}
impl RMethod for REma {
	fn next(&mut self, x: T) -> T {
		if x.und() || self.y.und() {
			self.y = T::UND;
			return T::UND;
		}
		self.m = self.m.max(x.mag());
		let a = self.alpha;
		// input error part and own rounding part are tracked together in y.e. One update `(x - y)·α + y` (or `α·x + (1-α)·y`)
		// rounds at the scale of the *current* input and state - not of the largest input of the history - so the bound
		// follows the state down when it decays (a long flat stretch after movement) instead of freezing at u·M_history;
		// η covers the subnormal range
		let local = x.mag().max(self.y.mag());
		let v = self.y.v + a * (x.v - self.y.v);
		// (zero input into a zero state stays an exactly known zero)
		let scale = local.max(v.abs());
		let step = if scale == 0.0 { 0.0 } else { C_EMA * U * scale + ETA };
		let e = (1.0 - a) * self.y.e + a * x.e + step;
		self.own = (1.0 - a) * self.own + step;
		self.y = T::new(v, e);
		self.y
	}
	fn unit(&self) -> f64 {
		U * self.m / self.alpha
	}
}

#[derive(Clone, Debug)]
pub struct RCascade {
	pub stages: Vec<REma>,
}
impl RCascade {
	pub fn new(k: usize, n: usize, v: T) -> Self {
		RCascade {
			stages: (0..k).map(|_| REma::ema(n, v)).collect(),
		}
	}
	/// feed and return every stage output
	pub fn step(&mut self, x: T) -> Vec<T> {
		let mut cur = x;
		let mut outs = Vec::with_capacity(self.stages.len());
		for s in &mut self.stages {
			cur = s.next(cur);
			outs.push(cur);
		}
		outs
	}
}

#[derive(Clone, Debug)]
pub enum ExpKind {
	Dma,
	Tma,
	Dema,
	Tema,
}
#[derive(Clone, Debug)]
pub struct RExp {
	kind: ExpKind,
	c: RCascade,
}
impl RExp {
	pub fn new(kind: ExpKind, n: usize, v: T) -> Self {
		let k = match kind {
			ExpKind::Dma | ExpKind::Dema => 2,
			_ => 3,
		};
		RExp {
			kind,
			c: RCascade::new(k, n, v),
		}
	}
}
impl RMethod for RExp {
	fn next(&mut self, x: T) -> T {
		let o = self.c.step(x);
		match self.kind {
			ExpKind::Dma => o[1],
			ExpKind::Tma => o[2],
			ExpKind::Dema => o[0].scale(2.0).sub(o[1]),
			ExpKind::Tema => o[0].sub(o[1]).scale(3.0).add(o[2]),
		}
	}
	fn unit(&self) -> f64 {
		self.c.stages[0].unit()
	}
}

#[derive(Clone, Debug)]
pub struct RTsi {
	last: T,
	n: RCascade,
	d: RCascade,
}
impl RTsi {
	pub fn new(short: usize, long: usize, v: T) -> Self {
		let z = T::exact(0.0);
		RTsi {
			last: v,
			n: RCascade {
				stages: vec![REma::ema(long, z), REma::ema(short, z)],
			},
			d: RCascade {
				stages: vec![REma::ema(long, z), REma::ema(short, z)],
			},
		}
	}
}
impl RMethod for RTsi {
	fn next(&mut self, x: T) -> T {
		let m = x.sub(self.last);
		self.last = x;
		let num = self.n.step(m)[1];
		let den = self.d.step(m.abs())[1];
		if den.v == 0.0 && den.e == 0.0 {
			return T::exact(0.0);
		}
		// the double-smoothed absolute momentum is positive by construction; "zero" is only the exact case above
		num.div(den)
	}
}

#[derive(Clone, Debug)]
pub struct RVidya {
	f: f64,
	last_in: T,
	y: T,
	changes: Win,
	d: Drift,
	pub ill_conditioned: u64,
	pub exact_flat: u64,
}
impl RVidya {
	pub fn new(n: usize, v: T) -> Self {
		RVidya {
			f: 2.0 / (n as f64 + 1.0),
			last_in: v,
			y: v,
			changes: Win::new(n, T::exact(0.0)),
			d: Drift::new(C_VIDYA_SUMS, n, T::exact(0.0)),
			ill_conditioned: 0,
			exact_flat: 0,
		}
	}
}
impl RMethod for RVidya {
	fn next(&mut self, x: T) -> T {
		let ch = x.sub(self.last_in);
		self.last_in = x;
		self.changes.push(ch);
		self.d.observe(ch);
		// positive / negative part of a change whose sign may be uncertain
		let pos = |c: T| -> T {
			if c.und() {
				T::UND
			} else if c.v - c.e > 0.0 || c.e == 0.0 {
				if c.v > 0.0 {
					c
				} else {
					T::exact(0.0)
				}
			} else if c.v + c.e <= 0.0 {
				T::exact(0.0)
			} else {
				let hi = c.v + c.e;
				T::new(hi / 2.0, hi / 2.0)
			}
		};
		let up = sum(self.changes.q.iter().map(|c| pos(*c)));
		let dn = sum(self.changes.q.iter().map(|c| pos(c.neg())));
		let all_exact_zero = self.changes.q.iter().all(|c| c.v == 0.0 && c.e == 0.0);
		let drift = self.d.d() * self.d.n;
		let up = up.widen(drift);
		let dn = dn.widen(drift);
		let mut cmo = if all_exact_zero { T::UND } else { up.sub(dn).abs().div(up.add(dn)) };
		if all_exact_zero {
			self.exact_flat += 1;
		}
		let undefined = cmo.und();
		if undefined {
			// §3.3: 0/0 or residue/residue - the factor becomes the interval its definition allows
			self.ill_conditioned += 1;
			cmo = T::new(0.5, 0.5);
		} else {
			let lo = (cmo.v - cmo.e).max(0.0);
			let hi = (cmo.v + cmo.e).min(1.0);
			cmo = if hi >= lo { T::new((lo + hi) / 2.0, ((hi - lo) / 2.0) * (1.0 + 1e-9) + 2.0 * U) } else { T::new(cmo.v.clamp(0.0, 1.0), cmo.e) };
		}
		if x.und() || self.y.und() {
			self.y = T::UND;
			return self.y;
		}
		// y' = y + fc (x - y), fc in [0, 1]: convex update, errors contract
		// where the Chande momentum is undefined (0/0: no movement in the window, as documented nowhere) or
		// ill-conditioned, the *whole* smoothing factor is only known to lie in [0, 1]: the implementation's own
		// choice there (output := input, factor 1) and the conventional one (CMO := 0, factor 0) both comply;
		// what does not comply is leaving the hull of previous output and input.
		let (fcv, fce) = if undefined { (0.5, 0.5) } else { (cmo.v * self.f, cmo.e * self.f) };
		let dv = x.v - self.y.v;
		let v = self.y.v + fcv * dv;
		let e = (1.0 - fcv) * self.y.e
			+ fcv * x.e
			+ fce * (dv.abs() + x.e + self.y.e)
			+ 8.0 * U * x.v.abs().max(self.y.v.abs());
		self.y = T::new(v, e);
		self.y
	}
}

// candle helpers on tracked candles [open, high, low, close, volume]
pub type TC = [T; 5];

pub fn tc_exact(c: &[f64; 5]) -> TC {
	[T::exact(c[0]), T::exact(c[1]), T::exact(c[2]), T::exact(c[3]), T::exact(c[4])]
}
pub fn tp(c: &TC) -> T {
	let s = c[1].add(c[2]).add(c[3]);
	// evaluated as documented, (high + low + close) / 3, so that exact inputs give the value a straightforward
	// implementation gives; the error bound still covers any other evaluation order
	T::new(s.v / 3.0, s.e / 3.0 + 2.0 * U * (s.v / 3.0).abs())
}
pub fn hl2(c: &TC) -> T {
	c[1].add(c[2]).scale(0.5)
}
pub fn ohlc4(c: &TC) -> T {
	c[1].add(c[2]).add(c[3]).add(c[0]).scale(0.25)
}
pub fn clv(c: &TC) -> T {
	if c[1].v == c[2].v && c[1].e == 0.0 && c[2].e == 0.0 {
		return T::exact(0.0);
	}
	let num = c[3].scale(2.0).sub(c[2]).sub(c[1]);
	num.div(c[1].sub(c[2]))
}
pub fn tr_close(c: &TC, prev_close: T) -> T {
	c[1].max(prev_close).sub(c[2].min(prev_close))
}
pub fn source(c: &TC, src: u8) -> T {
	match src {
		0 => c[3],
		1 => c[0],
		2 => c[1],
		3 => c[2],
		4 => hl2(c),
		5 => tp(c),
		6 => c[4],
		_ => tp(c).mul(c[4]),
	}
}

// ------------------------------------------------------------------------------------------------
// exact selections

#[derive(Clone, Debug)]
pub struct RSel {
	pub w: VecDeque<f64>,
}
impl RSel {
	pub fn new(n: usize, v: f64) -> Self {
		RSel {
			w: std::iter::repeat(v).take(n).collect(),
		}
	}
	pub fn push(&mut self, x: f64) {
		self.w.pop_front();
		self.w.push_back(x);
	}
	pub fn max(&self) -> f64 {
		self.w.iter().copied().fold(f64::NEG_INFINITY, f64::max)
	}
	pub fn min(&self) -> f64 {
		self.w.iter().copied().fold(f64::INFINITY, f64::min)
	}
	/// age (0 = newest) of the newest maximal element
	pub fn argmax_age(&self) -> u64 {
		let m = self.max();
		self.w.iter().rev().position(|x| *x == m).unwrap_or(0) as u64
	}
	pub fn argmin_age(&self) -> u64 {
		let m = self.min();
		self.w.iter().rev().position(|x| *x == m).unwrap_or(0) as u64
	}
	pub fn median(&self) -> f64 {
		let mut v: Vec<f64> = self.w.iter().copied().collect();
		median_of(&mut v)
	}
}

/// reversal detector over the whole stream so far: fires at t iff t >= right and x[t-right] is the newest-wins
/// extremum of x[max(0, t-left-right) ..= t]
#[derive(Clone, Debug)]
pub struct RReversal {
	left: usize,
	right: usize,
	hist: VecDeque<f64>,
	t: usize,
}
impl RReversal {
	pub fn new(left: usize, right: usize) -> Self {
		RReversal {
			left,
			right,
			hist: VecDeque::new(),
			t: 0,
		}
	}
	/// returns (upper fires, lower fires)
	pub fn next(&mut self, x: f64) -> (bool, bool) {
		self.hist.push_back(x);
		if self.hist.len() > self.left + self.right + 1 {
			self.hist.pop_front();
		}
		let t = self.t;
		self.t += 1;
		if t < self.right {
			return (false, false);
		}
		// candidate: `right` steps back from the newest
		let len = self.hist.len();
		let ci = len - 1 - self.right;
		let c = self.hist[ci];
		let mut up = true;
		let mut lo = true;
		for (i, v) in self.hist.iter().enumerate() {
			if i < ci {
				// older elements: candidate wins ties (newest wins)
				if *v > c {
					up = false;
				}
				if *v < c {
					lo = false;
				}
			} else if i > ci {
				// newer elements would win ties
				if *v >= c {
					up = false;
				}
				if *v <= c {
					lo = false;
				}
			}
		}
		(up, lo)
	}
}

// ------------------------------------------------------------------------------------------------
// reference per yata method name

#[derive(Clone, Debug)]
pub enum RefOut {
	/// |y - v| <= e ; undefined => exempt
	Arith(T),
	/// implementation returns sqrt(|var|); compared in variance space
	Var(T),
	/// numeric equality (sign of zero ignored)
	Exact(f64),
	/// bit-exact float
	Bits(f64),
	Int(u64),
	Act(Action),
	Candle([T; 5]),
	OptCandle(Option<[f64; 5]>),
	Skip,
}

pub trait RefM {
	fn next(&mut self, x: &In) -> RefOut;
	fn set_history(&mut self, _t: f64, _m: f64) {}
	fn unit(&self) -> f64 {
		0.0
	}
	fn probes(&self) -> Vec<(&'static str, u64)> {
		Vec::new()
	}
}

struct Arith<R: RMethod>(R);
impl<R: RMethod> RefM for Arith<R> {
	fn next(&mut self, x: &In) -> RefOut {
		RefOut::Arith(self.0.next(T::exact(x.val())))
	}
	fn set_history(&mut self, t: f64, m: f64) {
		self.0.set_history(t, m);
	}
	fn unit(&self) -> f64 {
		self.0.unit()
	}
}

struct FnRef<F: FnMut(&In) -> RefOut>(F);
impl<F: FnMut(&In) -> RefOut> RefM for FnRef<F> {
	fn next(&mut self, x: &In) -> RefOut {
		(self.0)(x)
	}
}

struct VidyaRef(RVidya);
impl RefM for VidyaRef {
	fn next(&mut self, x: &In) -> RefOut {
		RefOut::Arith(self.0.next(T::exact(x.val())))
	}
	fn probes(&self) -> Vec<(&'static str, u64)> {
		vec![
			("vidya_ill_conditioned_steps", self.0.ill_conditioned),
			("vidya_exact_flat_window_steps", self.0.exact_flat),
		]
	}
}

struct VwmaRef(RVwma);
impl RefM for VwmaRef {
	fn next(&mut self, x: &In) -> RefOut {
		let p = x.pair();
		RefOut::Arith(self.0.next((T::exact(p.0), T::exact(p.1))))
	}
	fn set_history(&mut self, t: f64, m: f64) {
		// m: magnitude of the history of both components (value * volume and volume)
		self.0.dn.history(t, m);
		self.0.dd.history(t, m);
	}
}

struct AdiRef(RRunSum);
impl RefM for AdiRef {
	fn next(&mut self, x: &In) -> RefOut {
		let c = tc_exact(&x.candle_f64());
		RefOut::Arith(self.0.next(clv(&c).mul(c[4])))
	}
	fn set_history(&mut self, t: f64, m: f64) {
		self.0.set_history(t, m);
	}
}

struct StDevRef(RStDev);
impl RefM for StDevRef {
	fn next(&mut self, x: &In) -> RefOut {
		RefOut::Var(self.0.next_var(T::exact(x.val())))
	}
	fn set_history(&mut self, t: f64, m: f64) {
		self.0.d.history(t, m);
	}
	fn unit(&self) -> f64 {
		self.0.var_unit()
	}
}

pub fn act(b: bool) -> Action {
	if b {
		Action::BUY_ALL
	} else {
		Action::None
	}
}

/// reference model for a method by name; None when the parameters are outside the documented domain
pub fn make_ref(name: &str, p: &Params, first: &In) -> Option<Box<dyn RefM>> {
	let v0 = T::exact(first.val());
	let n = match p {
		Params::Len(n) => *n as usize,
		_ => 0,
	};
	Some(match name {
		"SMA" => Box::new(Arith(RSma::new(n, v0))),
		"WMA" => Box::new(Arith(RWeighted::wma(n, v0))),
		"SWMA" => Box::new(Arith(RWeighted::swma(n, v0))),
		"TRIMA" => Box::new(Arith(RTrima::new(n, v0))),
		"HMA" => Box::new(Arith(RHma::new(n, v0))),
		"LinReg" => Box::new(Arith(RWeighted::linreg(n, v0))),
		"Conv" => {
			let Params::Weights(w) = p else { return None };
			let ws: Vec<f64> = w.iter().map(|x| x.0).collect();
			Box::new(Arith(RWeighted::conv(&ws, v0)?))
		}
		"VWMA" => {
			let pr = first.pair();
			Box::new(VwmaRef(RVwma::new(n, (T::exact(pr.0), T::exact(pr.1)))))
		}
		"Integral" => {
			if n == 0 {
				Box::new(Arith(RCumSum::new()))
			} else {
				Box::new(Arith(RRunSum::new(n, v0, C_INTEGRAL)))
			}
		}
		"Derivative" => {
			let mut w = RPast::new(n, v0);
			Box::new(FnRef(move |x: &In| {
				let x = T::exact(x.val());
				let old = w.next(x);
				RefOut::Arith(x.sub(old).scale(1.0 / n as f64))
			}))
		}
		"Momentum" => {
			let mut w = RPast::new(n, v0);
			Box::new(FnRef(move |x: &In| {
				let x = T::exact(x.val());
				let old = w.next(x);
				RefOut::Arith(x.sub(old))
			}))
		}
		"RateOfChange" => {
			let mut w = RPast::new(n, v0);
			Box::new(FnRef(move |x: &In| {
				let x = T::exact(x.val());
				let old = w.next(x);
				RefOut::Arith(x.sub(old).div(old))
			}))
		}
		"Past" => {
			let mut w = RPast::new(n, v0);
			Box::new(FnRef(move |x: &In| RefOut::Bits(w.next(T::exact(x.val())).v)))
		}
		"StDev" => Box::new(StDevRef(RStDev::new(n, v0))),
		"MeanAbsDev" => Box::new(Arith(RMeanAbsDev::new(n, v0))),
		"MedianAbsDev" => Box::new(Arith(RMedianAbsDev::new(n, v0))),
		"CCI" => Box::new(Arith(RCci::new(n, v0))),
		"LinearVolatility" => Box::new(Arith(RLinVol::new(n, v0))),
		"ADI" => {
			let c0 = tc_exact(&first.candle_f64());
			let clvv0 = clv(&c0).mul(c0[4]);
			if n == 0 {
				let mut s = RCumSum::new();
				Box::new(FnRef(move |x: &In| {
					let c = tc_exact(&x.candle_f64());
					RefOut::Arith(s.next(clv(&c).mul(c[4])))
				}))
			} else {
				Box::new(AdiRef(RRunSum::new(n, clvv0, C_INTEGRAL)))
			}
		}
		"EMA" => Box::new(Arith(REma::ema(n, v0))),
		"RMA" => Box::new(Arith(REma::rma(n, v0))),
		"WSMA" => Box::new(Arith(REma::wsma(n, v0))),
		"DMA" => Box::new(Arith(RExp::new(ExpKind::Dma, n, v0))),
		"TMA" => Box::new(Arith(RExp::new(ExpKind::Tma, n, v0))),
		"DEMA" => Box::new(Arith(RExp::new(ExpKind::Dema, n, v0))),
		"TEMA" => Box::new(Arith(RExp::new(ExpKind::Tema, n, v0))),
		"TSI" => {
			let Params::Two(s, l) = p else { return None };
			Box::new(Arith(RTsi::new(*s as usize, *l as usize, v0)))
		}
		"Vidya" => Box::new(VidyaRef(RVidya::new(n, v0))),
		"TR" => {
			let mut prev = T::exact(first.candle_f64()[3]);
			Box::new(FnRef(move |x: &In| {
				let c = tc_exact(&x.candle_f64());
				let r = tr_close(&c, prev);
				prev = c[3];
				RefOut::Arith(r)
			}))
		}
		"HeikinAshi" => {
			let c0 = tc_exact(&first.candle_f64());
			let mut next_open = ohlc4(&c0);
			Box::new(FnRef(move |x: &In| {
				let c = tc_exact(&x.candle_f64());
				let open = next_open;
				let close = ohlc4(&c);
				next_open = open.add(close).scale(0.5);
				RefOut::Candle([open, c[1].max(open), c[2].min(open), close, c[4]])
			}))
		}
		"Highest" | "Lowest" | "HighestLowestDelta" | "HighestIndex" | "LowestIndex" | "SMM" => {
			let mut s = RSel::new(n, first.val());
			let name = name.to_string();
			Box::new(FnRef(move |x: &In| {
				s.push(x.val());
				match name.as_str() {
					"Highest" => RefOut::Exact(s.max()),
					"Lowest" => RefOut::Exact(s.min()),
					"HighestLowestDelta" => RefOut::Arith(T::exact(s.max()).sub(T::exact(s.min()))),
					"HighestIndex" => RefOut::Int(s.argmax_age()),
					"LowestIndex" => RefOut::Int(s.argmin_age()),
					_ => {
						// median: mean of the two middle elements may round once
						let m = s.median();
						if s.w.len() % 2 == 1 {
							RefOut::Exact(m)
						} else {
							RefOut::Arith(T::new(m, U * m.abs() + ETA))
						}
					}
				}
			}))
		}
		"Cross" | "CrossAbove" | "CrossUnder" => {
			let p0 = first.pair();
			let mut last = p0.0 - p0.1;
			let name = name.to_string();
			Box::new(FnRef(move |x: &In| {
				let p = x.pair();
				let d = p.0 - p.1;
				let above = last < 0.0 && d >= 0.0;
				let under = last > 0.0 && d <= 0.0;
				last = d;
				RefOut::Act(match name.as_str() {
					"CrossAbove" => act(above),
					"CrossUnder" => act(under),
					_ => {
						if above {
							Action::BUY_ALL
						} else if under {
							Action::SELL_ALL
						} else {
							Action::None
						}
					}
				})
			}))
		}
		"ReversalSignal" | "UpperReversalSignal" | "LowerReversalSignal" => {
			let Params::Two(l, r) = p else { return None };
			let mut rr = RReversal::new(*l as usize, *r as usize);
			let name = name.to_string();
			Box::new(FnRef(move |x: &In| {
				let (up, lo) = rr.next(x.val());
				RefOut::Act(match name.as_str() {
					"UpperReversalSignal" => act(up),
					"LowerReversalSignal" => act(lo),
					_ => {
						// lower - upper
						if lo && !up {
							Action::BUY_ALL
						} else if up && !lo {
							Action::SELL_ALL
						} else {
							Action::None
						}
					}
				})
			}))
		}
		_ => return None,
	})
}

/// compare an implementation output with the reference verdict
pub fn compare(out: &Out, r: &RefOut) -> Result<bool, String> {
	// Ok(true) = checked and complies, Ok(false) = exempt (undefined), Err = violation
	match r {
		RefOut::Skip => Ok(false),
		RefOut::Arith(t) => {
			if out.tag != T_FLOAT {
				return Err(format!("expected a float output, got {out:?}"));
			}
			if t.und() {
				return Ok(false);
			}
			let y = out.f(0);
			if t.complies(y) {
				Ok(true)
			} else {
				Err(format!(
					"output {y:e} differs from the definition {:e} by {:e}, allowance {:e}",
					t.v,
					(y - t.v).abs(),
					t.e
				))
			}
		}
		RefOut::Var(t) => {
			if t.und() {
				return Ok(false);
			}
			let y = out.f(0);
			if !(y >= 0.0) {
				return Err(format!("dispersion output {y:e} is negative or NaN"));
			}
			let y2 = y * y;
			let tol = t.e + 4.0 * U * y2;
			if (y2 - t.v).abs() <= tol {
				Ok(true)
			} else {
				Err(format!(
					"output^2 {y2:e} differs from the sample variance {:e} by {:e}, allowance {tol:e}",
					t.v,
					(y2 - t.v).abs()
				))
			}
		}
		RefOut::Exact(v) => {
			let y = out.f(0);
			if out.tag == T_FLOAT && y == *v {
				Ok(true)
			} else {
				Err(format!("output {y:e} is not the exact selection {v:e}"))
			}
		}
		RefOut::Bits(v) => {
			let y = out.f(0);
			if out.tag == T_FLOAT && y.to_bits() == v.to_bits() {
				Ok(true)
			} else {
				Err(format!("output {y:e} is not bit-identical to {v:e}"))
			}
		}
		RefOut::Int(v) => {
			if out.tag == T_INT && out.w[0] == *v {
				Ok(true)
			} else {
				Err(format!("output {out:?}, definition {v}"))
			}
		}
		RefOut::Act(a) => {
			if out.tag == T_ACTION && out.action(0) == *a {
				Ok(true)
			} else {
				Err(format!("output {out:?}, definition {a:?}"))
			}
		}
		RefOut::Candle(c) => {
			if out.tag != T_CANDLE {
				return Err(format!("expected a candle, got {out:?}"));
			}
			let mut any = false;
			for i in 0..5 {
				if c[i].und() {
					continue;
				}
				any = true;
				let y = out.f(i);
				// NaN volume passes through unchanged
				if c[i].v.is_nan() && y.is_nan() {
					continue;
				}
				if !c[i].complies(y) {
					return Err(format!(
						"candle field {i}: output {y:e}, definition {:e} +- {:e}",
						c[i].v, c[i].e
					));
				}
			}
			Ok(any)
		}
		RefOut::OptCandle(c) => {
			if out.tag != T_OPT_CANDLE {
				return Err(format!("expected Option<Candle>, got {out:?}"));
			}
			match c {
				None => {
					if out.w[0] == 0 {
						Ok(true)
					} else {
						Err(format!("emitted {out:?} where nothing is due"))
					}
				}
				Some(c) => {
					if out.w[0] != 1 {
						return Err("nothing emitted where a candle is due".into());
					}
					for i in 0..5 {
						let y = out.f(1 + i);
						let tol = if i == 4 { 8.0 * U * c[i].abs() * 64.0 } else { 0.0 };
						if (y - c[i]).abs() > tol {
							return Err(format!("collapsed candle field {i}: output {y:e}, definition {:e}", c[i]));
						}
					}
					Ok(true)
				}
			}
		}
	}
}

pub fn tri_str(t: Tri) -> &'static str {
	match t {
		Tri::True => "true",
		Tri::False => "false",
		Tri::Unknown => "unknown",
	}
}
