//! C19 / C20 — the same seeded programs executed by differently built copies of the crate (cargo features), one of
//! them inside the Miri interpreter; transcripts are diffed by the driver (the default build).

use crate::common::*;
use crate::prog::{self, Program};
use crate::rng::Rng;
use serde_json::{json, Value as J};
use std::collections::BTreeSet;
use std::io::Write;
use std::process::Command;

pub struct BuildCheck {
	pub id: &'static str,
}

fn n_programs(id: &str, tier: Tier) -> u64 {
	match (id, tier) {
		("C19", Tier::Quick) => 3_000,
		("C19", Tier::Thorough) => 30_000,
		(_, Tier::Quick) => 1_200,
		(_, Tier::Thorough) => 12_000,
	}
}
fn n_miri(tier: Tier) -> u64 {
	match tier {
		Tier::Quick => 24,
		Tier::Thorough => 400,
	}
}

/// the `transcript` subcommand executed by every build: prints "BEGIN i" then "i hash panicked lines"
pub fn transcript_main(args: &[String]) -> i32 {
	silence_panics();
	let mut programs = None;
	let mut skip: BTreeSet<u64> = BTreeSet::new();
	let mut dump: Option<u64> = None;
	let mut i = 0;
	while i < args.len() {
		match args[i].as_str() {
			"--programs" => {
				programs = args.get(i + 1).cloned();
				i += 1;
			}
			"--skip" => {
				if let Some(s) = args.get(i + 1) {
					skip = s.split(',').filter_map(|x| x.parse().ok()).collect();
				}
				i += 1;
			}
			"--no-snapshot-hashes" => prog::SNAPSHOT_HASHES.store(false, std::sync::atomic::Ordering::Relaxed),
			"--dump" => {
				dump = args.get(i + 1).and_then(|x| x.parse().ok());
				i += 1;
			}
			_ => {}
		}
		i += 1;
	}
	let Some(path) = programs else {
		eprintln!("transcript: --programs FILE required");
		return 2;
	};
	let Ok(text) = std::fs::read_to_string(&path) else {
		eprintln!("transcript: cannot read {path}");
		return 2;
	};
	let out = std::io::stdout();
	for (i, line) in text.lines().enumerate() {
		let i = i as u64;
		if skip.contains(&i) || dump.map_or(false, |d| d != i) {
			continue;
		}
		let Ok(p) = serde_json::from_str::<Program>(line) else {
			eprintln!("transcript: bad program line {i}");
			return 2;
		};
		{
			let mut o = out.lock();
			let _ = writeln!(o, "BEGIN {i}");
			let _ = o.flush();
		}
		let t = prog::run_program(&p);
		let mut o = out.lock();
		if dump.is_some() {
			for l in &t.lines {
				let _ = writeln!(o, "  {l}");
			}
		}
		let _ = writeln!(o, "{i} {:016x} {} {}", t.hash(), u8::from(t.panicked), t.lines.len());
		let _ = o.flush();
	}
	0
}

fn build(set: &str, profile: &str) -> Result<String, String> {
	let dir = verif_dir();
	let o = Command::new(dir.join("bin/build")).arg(set).arg(profile).output().map_err(|e| format!("cannot run bin/build: {e}"))?;
	if o.status.success() {
		Ok(String::from_utf8_lossy(&o.stdout).trim().to_string())
	} else {
		Err(String::from_utf8_lossy(&o.stderr).to_string())
	}
}

/// a feature set that does not build is a violation only when the failing crate is yata itself; a compile error
/// in the harness is a harness error (exit 2)
fn harness_or_repo(compiler_output: &str) {
	let in_repo = compiler_output.contains("could not compile `yata`") || compiler_output.contains("/repo/src");
	if !in_repo {
		eprintln!("harness error: the harness itself does not build for a feature set:\n{compiler_output}");
		std::process::exit(2);
	}
}

fn parse_hashes(text: &str) -> std::collections::BTreeMap<u64, (String, bool)> {
	let mut m = std::collections::BTreeMap::new();
	for l in text.lines() {
		let p: Vec<&str> = l.split_whitespace().collect();
		if p.len() == 4 {
			if let Ok(i) = p[0].parse::<u64>() {
				m.insert(i, (p[1].to_string(), p[2] == "1"));
			}
		}
	}
	m
}

fn run_build(bin: &str, progs: &str, skip: &str) -> Result<String, String> {
	let mut cmd = Command::new(bin);
	cmd.args(["transcript", "--programs", progs, "--skip", skip]);
	if !prog::SNAPSHOT_HASHES.load(std::sync::atomic::Ordering::Relaxed) {
		cmd.arg("--no-snapshot-hashes");
	}
	let o = cmd
		.output()
		.map_err(|e| format!("cannot run {bin}: {e}"))?;
	let out = String::from_utf8_lossy(&o.stdout).to_string();
	if !o.status.success() {
		let last = out.lines().rev().find(|l| l.starts_with("BEGIN")).unwrap_or("BEGIN ?").to_string();
		return Err(format!("process died ({}) in program {last}: {}", o.status, String::from_utf8_lossy(&o.stderr).lines().rev().take(6).collect::<Vec<_>>().join(" | ")));
	}
	Ok(out)
}

fn dump(bin: &str, progs: &str, i: u64) -> Vec<String> {
	let mut cmd = Command::new(bin);
	cmd.args(["transcript", "--programs", progs, "--dump", &i.to_string()]);
	if !prog::SNAPSHOT_HASHES.load(std::sync::atomic::Ordering::Relaxed) {
		cmd.arg("--no-snapshot-hashes");
	}
	cmd.output()
		.map(|o| String::from_utf8_lossy(&o.stdout).lines().map(str::to_string).collect())
		.unwrap_or_default()
}

impl Check for BuildCheck {
	type Case = Program;
	fn id(&self) -> &'static str {
		self.id
	}
	fn runs(&self, tier: Tier) -> u64 {
		n_programs(self.id, tier)
	}
	fn generate(&self, _root: &Rng, i: u64, tier: Tier) -> Program {
		// programs are a pure function of the seed; the same list is rebuilt by the epilogue
		let seed = seed_from_env();
		thread_local! {
			static CACHE: std::cell::RefCell<Option<(u64, u64, Vec<Program>)>> = const { std::cell::RefCell::new(None) };
		}
		let n = n_programs(self.id, tier);
		CACHE.with(|c| {
			let mut c = c.borrow_mut();
			if c.as_ref().map_or(true, |(s, m, _)| *s != seed || *m != n) {
				*c = Some((seed, n, prog::gen_programs(crate::rng::mix(seed, crate::rng::fnv(self.id)), n, false)));
			}
			c.as_ref().unwrap().2[i as usize].clone()
		})
	}
	fn execute(&self, p: &Program, stats: &mut Stats) -> Vec<Violation> {
		// the default build's own execution (transcript hash goes into the event log; coverage counted here)
		let t = prog::run_program(p);
		stats.ops += t.lines.len() as u64;
		stats.log(t.hash());
		match p {
			Program::Win(c) => {
				stats.suts.insert(format!("Window<{}>", c.elem));
				stats.cover(format!("Window<{}>|{}", c.elem, if t.panicked { "panics_in_default(filtered)" } else { "ok" }));
			}
			Program::Sut(c) => {
				stats.suts.insert(c.sut.clone());
				let kinds: BTreeSet<&str> = c
					.ops
					.iter()
					.map(|o| match o {
						crate::meng::Op::Tick => "tick",
						crate::meng::Op::Batch { .. } => "batch",
						crate::meng::Op::Peek => "peek",
						crate::meng::Op::Snapshot { .. } => "snapshot",
						crate::meng::Op::CrashRestore => "restore",
						crate::meng::Op::Fork | crate::meng::Op::ForkTick => "fork",
						crate::meng::Op::SerFail(_) => "serfail",
						crate::meng::Op::Corrupt { .. } => "corrupt",
					})
					.collect();
				for k in kinds {
					stats.cover(format!("{}|{k}", c.sut));
				}
				if c.ops.iter().any(|o| !matches!(o, crate::meng::Op::Tick)) {
					stats.nontrivial = true;
				}
			}
		}
		if t.panicked {
			stats.probe("program_panics_in_default_build (filtered out of the comparison)");
		}
		Vec::new()
	}
	fn epilogue(&self, tier: Tier, seed: u64, stats: &mut Stats) -> Vec<(Violation, J)> {
		let mut vs: Vec<(Violation, J)> = Vec::new();
		if self.id == "C20" {
			prog::SNAPSHOT_HASHES.store(false, std::sync::atomic::Ordering::Relaxed);
		}
		let dir = verif_dir();
		let work = dir.join("target").join(format!("programs-{}-{}", self.id, seed));
		let _ = std::fs::create_dir_all(&work);
		let n = n_programs(self.id, tier);
		let programs = prog::gen_programs(crate::rng::mix(seed, crate::rng::fnv(self.id)), n, false);
		let write_progs = |name: &str, ps: &[Program]| -> String {
			let path = work.join(name);
			let mut s = String::new();
			for p in ps {
				s.push_str(&serde_json::to_string(p).unwrap());
				s.push('\n');
			}
			std::fs::write(&path, s).expect("write programs");
			path.to_string_lossy().to_string()
		};
		let pf = write_progs("programs.jsonl", &programs);
		// default build transcripts (this process)
		let def: Vec<prog::Transcript> = programs.iter().map(prog::run_program).collect();
		let skip: Vec<String> = def.iter().enumerate().filter(|(_, t)| t.panicked).map(|(i, _)| i.to_string()).collect();
		let skip_s = skip.join(",");
		let me = std::env::current_exe().map(|p| p.to_string_lossy().to_string()).unwrap_or_default();
		let strict_sets: Vec<&str> = if self.id == "C19" {
			vec!["unsafe_performance"]
		} else if tier == Tier::Thorough {
			vec!["period_type_u16", "period_type_u32", "period_type_u64", "period_type_u64+unsafe_performance"]
		} else {
			vec!["period_type_u16", "period_type_u32", "period_type_u64"]
		};
		let mut compare = |set: &str, profile: &str, reference: &std::collections::BTreeMap<u64, (String, bool)>, ref_bin: &str, stats: &mut Stats, vs: &mut Vec<(Violation, J)>| {
			stats.fault(&format!("build:{set}:{profile}"));
			let bin = match build(set, profile) {
				Ok(b) => b,
				Err(e) => {
					harness_or_repo(&e);
					vs.push((
						Violation::new(self.id, set, "feature_build_fails", 0, format!("feature set {set} ({profile}) does not build: {}", e.lines().take(12).collect::<Vec<_>>().join(" | "))),
						json!({"feature_set": set, "compiler_output": e}),
					));
					return;
				}
			};
			match run_build(&bin, &pf, &skip_s) {
				Ok(out) => {
					let h = parse_hashes(&out);
					let mut diffs = 0;
					for (i, (hash, _)) in reference {
						if skip.contains(&i.to_string()) {
							continue;
						}
						stats.checked += 1;
						match h.get(i) {
							Some((h2, _)) if h2 == hash => {}
							other => {
								diffs += 1;
								if diffs <= 2 {
									let a = dump(ref_bin, &pf, *i);
									let b = dump(&bin, &pf, *i);
									let first = a.iter().zip(&b).position(|(x, y)| x != y).unwrap_or(a.len().min(b.len()));
									let sut = match &programs[*i as usize] {
										Program::Win(c) => format!("Window<{}>", c.elem),
										Program::Sut(c) => c.sut.clone(),
									};
									vs.push((
										Violation::new(self.id, &sut, "transcripts_differ", first, format!("program {i}: build {set} ({profile}) differs from the reference build at transcript line {first}: {:?} vs {:?} (hash {:?} vs {hash})", b.get(first), a.get(first), other.map(|x| &x.0)))
											.tag("feature_set", set),
										json!({"program": programs[*i as usize], "feature_set": set, "profile": profile, "reference_transcript": a, "transcript": b}),
									));
								}
							}
						}
					}
				}
				Err(e) => {
					vs.push((
						Violation::new(self.id, set, "feature_build_crashes", 0, format!("build {set} ({profile}) crashed while executing programs the default build runs without panicking: {e}")).tag("feature_set", set),
						json!({"feature_set": set, "error": e}),
					));
				}
			}
		};
		let reference: std::collections::BTreeMap<u64, (String, bool)> = def.iter().enumerate().map(|(i, t)| (i as u64, (format!("{:016x}", t.hash()), t.panicked))).collect();
		for set in &strict_sets {
			compare(set, "release", &reference, &me, stats, &mut vs);
		}
		if tier == Tier::Thorough && self.id == "C19" {
			// plain release profile: arithmetic wraps, debug assertions off, unchecked indexing unguarded
			match build("default", "plain") {
				Ok(plain_def) => match run_build(&plain_def, &pf, &skip_s) {
					Ok(out) => {
						let r = parse_hashes(&out);
						compare("unsafe_performance", "plain", &r, &plain_def, stats, &mut vs);
					}
					Err(e) => vs.push((Violation::new(self.id, "default", "feature_build_crashes", 0, format!("plain default build crashed: {e}")), json!({"error": e}))),
				},
				Err(e) => vs.push((Violation::new(self.id, "default", "feature_build_fails", 0, format!("plain profile does not build: {e}")), json!({"compiler_output": e}))),
			}
		}
		// ---- C19: the feature build inside Miri (in-bounds / aliasing oracle)
		if self.id == "C19" {
			let m = n_miri(tier);
			let small = prog::gen_programs(crate::rng::mix(seed, crate::rng::fnv("miri")), m, true);
			let mf = write_progs("miri-programs.jsonl", &small);
			let mdef: Vec<prog::Transcript> = small.iter().map(prog::run_program).collect();
			let mskip: Vec<String> = mdef.iter().enumerate().filter(|(_, t)| t.panicked).map(|(i, _)| i.to_string()).collect();
			let shards = if tier == Tier::Thorough { 16 } else { 4 };
			let results: Vec<(usize, Result<String, String>)> = std::thread::scope(|s| {
				let hs: Vec<_> = (0..shards)
					.map(|sh| {
						let mf = mf.clone();
						let mskip = mskip.clone();
						let dir = dir.clone();
						s.spawn(move || {
							// shard = programs with index % shards == sh: skip all others
							let mut sk: Vec<String> = mskip.clone();
							sk.extend((0..m).filter(|i| (*i as usize) % shards != sh).map(|i| i.to_string()));
							let o = Command::new("cargo")
								.current_dir(dir.join("sim"))
								.env("CARGO_NET_OFFLINE", "true")
								.env("MIRIFLAGS", "-Zmiri-disable-isolation")
								.args(["+nightly", "miri", "run", "--offline", "--quiet", "--target-dir"])
								.arg(dir.join("target/miri"))
								.args(["--features", "unsafe_performance", "--", "transcript", "--programs", &mf, "--skip", &sk.join(",")])
								.output();
							(
								sh,
								match o {
									Ok(o) if o.status.success() => Ok(String::from_utf8_lossy(&o.stdout).to_string()),
									Ok(o) => {
										let out = String::from_utf8_lossy(&o.stdout).to_string();
										let last = out.lines().rev().find(|l| l.starts_with("BEGIN")).unwrap_or("BEGIN ?").to_string();
										let err = String::from_utf8_lossy(&o.stderr).to_string();
										Err(format!("{last}\n{err}"))
									}
									Err(e) => Err(format!("cannot run cargo miri: {e}")),
								},
							)
						})
					})
					.collect();
				hs.into_iter().map(|h| h.join().unwrap()).collect()
			});
			for (sh, r) in results {
				stats.fault("build:unsafe_performance:miri");
				match r {
					Ok(out) => stats.checked += parse_hashes(&out).len() as u64,
					Err(e) => {
						let idx: Option<usize> = e.lines().next().and_then(|l| l.trim_start_matches("BEGIN ").trim().parse().ok());
						let ub = e.contains("Undefined Behavior");
						if !ub && (e.contains("could not compile") || e.contains("cannot run cargo miri") || e.contains("error: no such command")) {
							eprintln!("harness error: Miri is not usable here: {}", e.lines().take(8).collect::<Vec<_>>().join(" | "));
							std::process::exit(2);
						}
						// skip the compiler warnings of the build; keep Miri's diagnostic
						let diag: Vec<&str> = e.lines().skip_while(|l| !l.starts_with("error")).take(45).collect();
						let msg: String = diag.iter().filter(|l| l.starts_with("error") || l.contains("-->") || l.contains("help:")).take(5).map(|l| l.trim()).collect::<Vec<_>>().join(" | ");
						let sut = idx
							.and_then(|i| small.get(i))
							.map(|p| match p {
								Program::Win(c) => format!("Window<{}>", c.elem),
								Program::Sut(c) => c.sut.clone(),
							})
							.unwrap_or_else(|| "?".into());
						let kind = if e.contains("Stacked Borrows") || e.contains("tag does not exist") || e.contains("borrow stack") { "aliasing_stacked_borrows" } else if ub { "undefined_behaviour" } else { "miri_abort" };
						vs.push((
							Violation::new("C19", &sut, kind, idx.unwrap_or(0), format!("Miri (shard {sh}) reports on the unsafe_performance build while executing program {idx:?}: {msg}"))
								.tag("detector", "miri")
								.tag("kind", kind),
							json!({"program": idx.and_then(|i| small.get(i)), "miri_output": diag}),
						));
					}
				}
			}
		}
		// ---- C20: definitional engines inside the wide / single precision builds
		{
			let inner: Vec<(&str, Vec<&str>)> = if self.id == "C20" {
				vec![
					("period_type_u16", vec!["C01", "C02", "C04", "C14", "C13"]),
					("value_type_f32", vec!["C01", "C02", "C03", "C04", "C14", "C05", "C06", "C15"]),
				]
			} else {
				// C19: storage faults are not part of the programs (build dependent by construction); the crash / restore /
				// corrupt-restore engine of C13 runs inside the unsafe_performance build instead
				vec![("unsafe_performance", vec!["C13"])]
			};
			for (set, checks) in inner {
				stats.fault(&format!("build:{set}:release"));
				let bin = match build(set, "release") {
					Ok(b) => b,
					Err(e) => {
						harness_or_repo(&e);
						vs.push((Violation::new(self.id, set, "feature_build_fails", 0, format!("feature set {set} does not build: {}", e.lines().take(12).collect::<Vec<_>>().join(" | "))), json!({"compiler_output": e})));
						continue;
					}
				};
				for c in checks {
					let o = Command::new(&bin)
						.arg(c)
						.arg(tier.name())
						.env("VERIF_NO_EVIDENCE", "1")
						// quick: the indicator references are cheap (full budget), the method checks a quarter of theirs;
						// thorough: an eighth of the thorough budgets (still 1.5x to 6x the quick ones)
						.env(
							"VERIF_RUNS_DIV",
							match (tier, set, c) {
								// wide windows (up to 3000 elements) make the from-scratch references O(n) per step
								(Tier::Thorough, "period_type_u16", "C02" | "C04" | "C13") => "64",
								(Tier::Thorough, _, _) => "8",
								(_, _, "C05" | "C06") => "1",
								_ => "4",
							},
						)
						.env("VERIF_SEED", seed.to_string())
						.env("VERIF_DIR", dir.to_string_lossy().to_string())
						.output();
					match o {
						Ok(o) => {
							let out = String::from_utf8_lossy(&o.stdout).to_string();
							if let Some(sum) = out.lines().find(|l| l.starts_with("summary")) {
								stats.probe_n(&format!("in_build:{set}:{c}:runs"), sum.split("runs=").nth(1).and_then(|x| x.split_whitespace().next()).and_then(|x| x.parse().ok()).unwrap_or(0));
							}
							for l in out.lines().filter(|l| l.starts_with("VIOLATION")).take(3) {
								let replay = l.split("replay=").nth(1).and_then(|x| x.split_whitespace().next()).unwrap_or("");
								vs.push((
									Violation::new(self.id, set, &format!("definitional_check_{c}_fails_in_build"), 0, format!("inside the {set} build: {}", l.chars().take(400).collect::<String>())).tag("feature_set", set).tag("inner", c),
									json!({"feature_set": set, "inner_check": c, "inner_replay": replay, "replay_with": format!("target/{set}/release/yata-sim {c} --replay {replay}")}),
								));
							}
							if o.status.code() == Some(2) {
								eprintln!("harness error inside the {set} build running {c}: {}", String::from_utf8_lossy(&o.stderr));
								std::process::exit(2);
							}
						}
						Err(e) => {
							eprintln!("harness error: cannot run {bin}: {e}");
							std::process::exit(2);
						}
					}
				}
			}
		}
		vs
	}
	fn rule(&self) -> String {
		if self.id == "C19" {
			"One evaluation = one seeded program (explicit trace over Window observers / iterators / rebuilds, or a method / indicator with ticks, batch calls, peeks, \
			 snapshots, crash-restores, forks, serializer failures and storage faults; biased to Window/SMM/median users) executed by the default build and by the \
			 unsafe_performance build (strict profile; thorough: also the plain release profile); programs on which the default build panics are filtered out; the \
			 transcripts (every result bit, every Ok/Err classification, normalised snapshot hashes) must be identical. A second, smaller program set is executed by the \
			 unsafe_performance build inside Miri (Stacked Borrows): any undefined behaviour is a violation whose replay is the program. Coverage tuple = (SUT, op kind)."
				.into()
		} else {
			"One evaluation = one seeded program whose parameters fit u8, executed by the default, period_type_u16, period_type_u32 and period_type_u64 builds (thorough: \
			 also period_type_u64+unsafe_performance); transcripts must be identical (integers compared by value). In addition the definitional engines C01/C02/C04/C14 \
			 run inside the period_type_u16 build with window lengths up to 600 (quick) / 3000 (thorough) and C01-C04/C14 inside the value_type_f32 build (u = 2^-23, \
			 reference in f64). Coverage tuple = (SUT, op kind)."
				.into()
		}
	}
	fn assumptions(&self) -> Vec<String> {
		vec![
			"programs are generated once by the default build and handed to the other builds as explicit JSON cases".into(),
			"Miri's default aliasing model (Stacked Borrows) is the in-bounds / validity oracle; transcripts produced under Miri are not compared (Miri perturbs transcendental functions)".into(),
		]
	}
	fn components(&self) -> J {
		json!({"real": ["the whole crate compiled once per feature set (default, unsafe_performance, period_type_u16/u32/u64, value_type_f32)", "Miri interpreter on the unsafe_performance build"],
			"stub": ["program generator", "transcript recorder and differ"]})
	}
	fn sample_limit(&self) -> usize {
		2
	}
}
