//! Systems under test behind one adapter: every yata method (and MA-dispatched instance) as a `Box<dyn Sut>`.

use crate::common::Fx;
use crate::simfmt::{self, SerCtl, SimErr, Value};
use serde::{Deserialize, Serialize};
use yata::core::{Action, Candle, Method, MovingAverageConstructor, PeriodType, Sequence, Source, ValueType, OHLCV};
use yata::helpers::{MAInstance, Peekable, MA};
use yata::methods::*;

pub const PMAX: u64 = PeriodType::MAX as u64;

/// round an f64 to the precision of the build's ValueType (so that the f64 the reference sees is exactly the
/// value the implementation receives)
#[inline]
pub fn vt(x: f64) -> f64 {
	x as ValueType as f64
}

#[derive(Clone, Copy, Debug, PartialEq, Serialize, Deserialize)]
pub enum In {
	V(Fx),
	P(Fx, Fx),
	/// open, high, low, close, volume
	C([Fx; 5]),
}

impl In {
	pub fn v(x: f64) -> In {
		In::V(Fx(vt(x)))
	}
	pub fn p(a: f64, b: f64) -> In {
		In::P(Fx(vt(a)), Fx(vt(b)))
	}
	pub fn c(o: f64, h: f64, l: f64, c: f64, v: f64) -> In {
		In::C([Fx(vt(o)), Fx(vt(h)), Fx(vt(l)), Fx(vt(c)), Fx(vt(v))])
	}
	pub fn val(&self) -> f64 {
		match self {
			In::V(x) => x.0,
			In::P(a, _) => a.0,
			In::C(c) => c[3].0,
		}
	}
	pub fn pair(&self) -> (f64, f64) {
		match self {
			In::V(x) => (x.0, x.0),
			In::P(a, b) => (a.0, b.0),
			In::C(c) => (c[3].0, c[4].0),
		}
	}
	pub fn candle_f64(&self) -> [f64; 5] {
		match self {
			In::V(x) => [x.0, x.0, x.0, x.0, 1.0],
			In::P(a, b) => [a.0, a.0, a.0, a.0, b.0],
			In::C(c) => [c[0].0, c[1].0, c[2].0, c[3].0, c[4].0],
		}
	}
	pub fn candle(&self) -> Candle {
		let c = self.candle_f64();
		Candle {
			open: c[0] as ValueType,
			high: c[1] as ValueType,
			low: c[2] as ValueType,
			close: c[3] as ValueType,
			volume: c[4] as ValueType,
		}
	}
	pub fn words(&self) -> [u64; 5] {
		match self {
			In::V(x) => [x.0.to_bits(), 0, 0, 0, 0],
			In::P(a, b) => [a.0.to_bits(), b.0.to_bits(), 0, 0, 0],
			In::C(c) => [
				c[0].0.to_bits(),
				c[1].0.to_bits(),
				c[2].0.to_bits(),
				c[3].0.to_bits(),
				c[4].0.to_bits(),
			],
		}
	}
}

pub const T_FLOAT: u8 = 0;
pub const T_INT: u8 = 1;
pub const T_ACTION: u8 = 2;
pub const T_CANDLE: u8 = 3;
pub const T_OPT_CANDLE: u8 = 4;
pub const T_RENKO: u8 = 5;
pub const T_RESULT: u8 = 6;

/// normalised output of one step: a tag and up to 10 words (float words are the bit pattern of the ValueType)
#[derive(Clone, Copy, PartialEq, Eq)]
pub struct Out {
	pub tag: u8,
	pub n: u8,
	pub w: [u64; 10],
}

impl std::fmt::Debug for Out {
	fn fmt(&self, f: &mut std::fmt::Formatter<'_>) -> std::fmt::Result {
		match self.tag {
			T_FLOAT => write!(f, "{:e}", self.f(0)),
			T_INT => write!(f, "{}", self.w[0]),
			T_ACTION => write!(f, "{:?}", self.action(0)),
			T_CANDLE => write!(f, "Candle{:?}", (0..5).map(|i| self.f(i)).collect::<Vec<_>>()),
			T_OPT_CANDLE => {
				if self.w[0] == 0 {
					write!(f, "None")
				} else {
					write!(f, "Some(Candle{:?})", (1..6).map(|i| self.f(i)).collect::<Vec<_>>())
				}
			}
			T_RENKO => write!(
				f,
				"Renko{{len:{},brick:{:e},base:{:e},vol:{:e}}}",
				self.w[0],
				self.f(1),
				self.f(2),
				self.f(3)
			),
			_ => {
				let nv = self.w[0] as usize;
				let ns = self.w[1] as usize;
				write!(
					f,
					"V{:?} S{:?}",
					(0..nv).map(|i| self.f(2 + i)).collect::<Vec<_>>(),
					(0..ns).map(|i| self.action(2 + nv + i)).collect::<Vec<_>>()
				)
			}
		}
	}
}

#[inline]
pub fn fbits(x: ValueType) -> u64 {
	x.to_bits() as u64
}
#[inline]
pub fn from_fbits(w: u64) -> f64 {
	#[cfg(feature = "value_type_f32")]
	{
		f32::from_bits(w as u32) as f64
	}
	#[cfg(not(feature = "value_type_f32"))]
	{
		f64::from_bits(w)
	}
}
pub fn action_word(a: Action) -> u64 {
	match a {
		Action::None => 0,
		Action::Buy(x) => 0x100 | u64::from(x),
		Action::Sell(x) => 0x200 | u64::from(x),
	}
}
pub fn word_action(w: u64) -> Action {
	match w >> 8 {
		0 => Action::None,
		1 => Action::Buy((w & 0xff) as u8),
		_ => Action::Sell((w & 0xff) as u8),
	}
}

impl Out {
	pub fn new(tag: u8, words: &[u64]) -> Out {
		let mut w = [0u64; 10];
		w[..words.len()].copy_from_slice(words);
		Out {
			tag,
			n: words.len() as u8,
			w,
		}
	}
	#[inline]
	pub fn f(&self, i: usize) -> f64 {
		from_fbits(self.w[i])
	}
	pub fn action(&self, i: usize) -> Action {
		word_action(self.w[i])
	}
	pub fn words(&self) -> &[u64] {
		&self.w[..self.n as usize]
	}
	pub fn hash(&self) -> u64 {
		let mut h = u64::from(self.tag);
		for x in self.words() {
			h = (h ^ x).wrapping_mul(0x0000_0100_0000_01b3).rotate_left(9);
		}
		h
	}
}

pub trait IntoOut {
	fn into_out(self) -> Out;
}
impl IntoOut for f64 {
	fn into_out(self) -> Out {
		Out::new(T_FLOAT, &[fbits(self as ValueType)])
	}
}
impl IntoOut for f32 {
	fn into_out(self) -> Out {
		Out::new(T_FLOAT, &[fbits(self as ValueType)])
	}
}
macro_rules! int_out {
	($($t:ty),*) => {$(impl IntoOut for $t { fn into_out(self) -> Out { Out::new(T_INT, &[self as u64]) } })*};
}
int_out!(u8, u16, u32, u64);
impl IntoOut for Action {
	fn into_out(self) -> Out {
		Out::new(T_ACTION, &[action_word(self)])
	}
}
impl IntoOut for Candle {
	fn into_out(self) -> Out {
		Out::new(
			T_CANDLE,
			&[
				fbits(self.open),
				fbits(self.high),
				fbits(self.low),
				fbits(self.close),
				fbits(self.volume),
			],
		)
	}
}
impl IntoOut for Option<Candle> {
	fn into_out(self) -> Out {
		match self {
			None => Out::new(T_OPT_CANDLE, &[0, 0, 0, 0, 0, 0]),
			Some(c) => Out::new(
				T_OPT_CANDLE,
				&[1, fbits(c.open), fbits(c.high), fbits(c.low), fbits(c.close), fbits(c.volume)],
			),
		}
	}
}
impl IntoOut for yata::methods::renko::RenkoOutput {
	fn into_out(self) -> Out {
		// summary of the iterator: len, signed brick size (via the OHLCV view), base line, total volume, close
		let len = self.len() as u64;
		if len == 0 {
			return Out::new(T_RENKO, &[0, 0, 0, 0, 0]);
		}
		let open = OHLCV::open(&self);
		let close = OHLCV::close(&self);
		let vol = OHLCV::volume(&self);
		let first = self.clone().next().map_or(0.0 as ValueType, |b| b.close);
		Out::new(T_RENKO, &[len, fbits(first), fbits(open), fbits(vol), fbits(close)])
	}
}
impl IntoOut for yata::core::IndicatorResult {
	fn into_out(self) -> Out {
		let v = self.values();
		let s = self.signals();
		let mut w = vec![v.len() as u64, s.len() as u64];
		w.extend(v.iter().map(|x| fbits(*x)));
		w.extend(s.iter().map(|a| action_word(*a)));
		Out::new(T_RESULT, &w)
	}
}

#[derive(Clone, Debug, PartialEq, Serialize, Deserialize)]
pub enum Params {
	Len(u64),
	Two(u64, u64),
	Unit,
	Weights(Vec<Fx>),
	Usize(u64),
	/// brick size, source index into `SOURCES`
	Renko(Fx, u8),
	/// MA kind index into `MA_KINDS`, length
	Ma(u8, u64),
}

impl Params {
	pub fn len(&self) -> u64 {
		match self {
			Params::Len(n) | Params::Ma(_, n) | Params::Usize(n) => *n,
			Params::Two(a, b) => a + b + 1,
			Params::Weights(w) => w.len() as u64,
			_ => 1,
		}
	}
}

pub const SOURCES: [Source; 8] = [
	Source::Close,
	Source::Open,
	Source::High,
	Source::Low,
	Source::HL2,
	Source::TP,
	Source::Volume,
	Source::VolumedPrice,
];

pub const MA_KINDS: [&str; 15] = [
	"SMA", "WMA", "HMA", "RMA", "EMA", "DMA", "DEMA", "TMA", "TEMA", "WSMA", "SMM", "SWMA", "TRIMA", "LinReg", "Vidya",
];

pub fn ma_of(kind: u8, len: u64) -> MA {
	let l = len as PeriodType;
	match kind {
		0 => MA::SMA(l),
		1 => MA::WMA(l),
		2 => MA::HMA(l),
		3 => MA::RMA(l),
		4 => MA::EMA(l),
		5 => MA::DMA(l),
		6 => MA::DEMA(l),
		7 => MA::TMA(l),
		8 => MA::TEMA(l),
		9 => MA::WSMA(l),
		10 => MA::SMM(l),
		11 => MA::SWMA(l),
		12 => MA::TRIMA(l),
		13 => MA::LinReg(l),
		_ => MA::Vidya(l),
	}
}

pub const API_NAMES: [&str; 6] = ["over(&slice)", "over(Vec)", "Sequence::call", "apply", "into_fn", "next-loop"];

pub trait Sut {
	fn next(&mut self, x: &In) -> Out;
	fn peek(&self) -> Option<Out>;
	fn fork(&self) -> Box<dyn Sut>;
	/// a clone made by `Clone::clone_from` into an existing instance of the same type (built from other parameters and
	/// already used); falls back to `fork()` where the types differ
	fn fork_into(&self, other: Box<dyn Sut>) -> Box<dyn Sut> {
		let _ = other;
		self.fork()
	}
	fn as_any_mut(&mut self) -> Option<&mut dyn std::any::Any> {
		None
	}
	/// None when the type has no Serialize impl
	fn snapshot(&self, ctl: &SerCtl) -> Option<Result<Value, SimErr>>;
	fn restore(&self, v: &Value) -> Option<Result<Box<dyn Sut>, String>>;
	fn json_roundtrip(&self) -> Option<Result<Box<dyn Sut>, String>>;
	/// deliver a chunk through batch API `api` (index into API_NAMES); None when unsupported for this SUT
	fn batch(&mut self, api: u8, xs: &[In]) -> Option<Vec<Out>>;
	fn debug(&self) -> String;
}

// ------------------------------------------------------------------------------------------------
// input adapters

pub trait InAd {
	type Owned;
	type Ref: ?Sized;
	fn own(x: &In) -> Self::Owned;
	fn bor(o: &Self::Owned) -> &Self::Ref;
}
pub struct IVal;
impl InAd for IVal {
	type Owned = ValueType;
	type Ref = ValueType;
	fn own(x: &In) -> ValueType {
		x.val() as ValueType
	}
	fn bor(o: &ValueType) -> &ValueType {
		o
	}
}
pub struct IPair;
impl InAd for IPair {
	type Owned = (ValueType, ValueType);
	type Ref = (ValueType, ValueType);
	fn own(x: &In) -> Self::Owned {
		let p = x.pair();
		(p.0 as ValueType, p.1 as ValueType)
	}
	fn bor(o: &Self::Owned) -> &Self::Ref {
		o
	}
}
pub struct IDyn;
impl InAd for IDyn {
	type Owned = Candle;
	type Ref = dyn OHLCV;
	fn own(x: &In) -> Candle {
		x.candle()
	}
	fn bor(o: &Candle) -> &(dyn OHLCV + 'static) {
		o
	}
}
pub struct ICandle;
impl InAd for ICandle {
	type Owned = Candle;
	type Ref = Candle;
	fn own(x: &In) -> Candle {
		x.candle()
	}
	fn bor(o: &Candle) -> &Candle {
		o
	}
}

// ------------------------------------------------------------------------------------------------
// generic wrapper; optional capabilities are function pointers filled in by the `sut!` macro

pub struct Caps<M> {
	pub peek: Option<fn(&M) -> Out>,
	pub snap: Option<fn(&M, &SerCtl) -> Result<Value, SimErr>>,
	pub restore: Option<fn(&Value) -> Result<M, SimErr>>,
	pub json: Option<fn(&M) -> Result<M, String>>,
	pub batch: Option<fn(&mut M, u8, &[In]) -> Option<Vec<Out>>>,
}

pub struct W<M: 'static, A> {
	pub m: M,
	pub caps: &'static Caps<M>,
	pub _a: std::marker::PhantomData<A>,
}

impl<M, A> Sut for W<M, A>
where
	M: Method + Clone + std::fmt::Debug + 'static,
	A: InAd<Ref = M::Input> + 'static,
	M::Output: IntoOut,
{
	fn next(&mut self, x: &In) -> Out {
		let o = A::own(x);
		self.m.next(A::bor(&o)).into_out()
	}
	fn peek(&self) -> Option<Out> {
		self.caps.peek.map(|f| f(&self.m))
	}
	fn fork(&self) -> Box<dyn Sut> {
		Box::new(W::<M, A> {
			m: self.m.clone(),
			caps: self.caps,
			_a: std::marker::PhantomData,
		})
	}
	fn fork_into(&self, mut other: Box<dyn Sut>) -> Box<dyn Sut> {
		if let Some(o) = other.as_any_mut().and_then(|a| a.downcast_mut::<W<M, A>>()) {
			o.m.clone_from(&self.m);
			return other;
		}
		self.fork()
	}
	fn as_any_mut(&mut self) -> Option<&mut dyn std::any::Any> {
		Some(self)
	}
	fn snapshot(&self, ctl: &SerCtl) -> Option<Result<Value, SimErr>> {
		self.caps.snap.map(|f| f(&self.m, ctl))
	}
	fn restore(&self, v: &Value) -> Option<Result<Box<dyn Sut>, String>> {
		let caps = self.caps;
		self.caps.restore.map(|f| {
			f(v).map_err(|e| e.0).map(|m| {
				Box::new(W::<M, A> {
					m,
					caps,
					_a: std::marker::PhantomData,
				}) as Box<dyn Sut>
			})
		})
	}
	fn json_roundtrip(&self) -> Option<Result<Box<dyn Sut>, String>> {
		let caps = self.caps;
		self.caps.json.map(|f| {
			f(&self.m).map(|m| {
				Box::new(W::<M, A> {
					m,
					caps,
					_a: std::marker::PhantomData,
				}) as Box<dyn Sut>
			})
		})
	}
	fn batch(&mut self, api: u8, xs: &[In]) -> Option<Vec<Out>> {
		match self.caps.batch {
			Some(f) => f(&mut self.m, api, xs),
			None => None,
		}
	}
	fn debug(&self) -> String {
		format!("{:?}", self.m)
	}
}

fn snap_of<M: Serialize>(m: &M, ctl: &SerCtl) -> Result<Value, SimErr> {
	simfmt::to_value_ctl(m, ctl)
}
fn restore_of<M: serde::de::DeserializeOwned>(v: &Value) -> Result<M, SimErr> {
	simfmt::from_value::<M>(v)
}
fn json_of<M: Serialize + serde::de::DeserializeOwned>(m: &M) -> Result<M, String> {
	let s = serde_json::to_string(m).map_err(|e| format!("to_string: {e}"))?;
	serde_json::from_str(&s).map_err(|e| format!("from_str: {e} on {s}"))
}
fn peek_of<M: Peekable<O>, O: IntoOut>(m: &M) -> Out {
	m.peek().into_out()
}

/// closure entry point (`into_fn`), available for every method: the closure is built from a clone, the instance
/// itself is advanced tick by tick, so the caller's comparison also checks closure == next
fn batch_fn<M, A>(m: &mut M, api: u8, xs: &[In]) -> Option<Vec<Out>>
where
	M: Method + Clone + 'static,
	A: InAd<Ref = M::Input>,
	M::Input: 'static,
	M::Output: IntoOut,
{
	if api != 4 {
		return None;
	}
	let owned: Vec<A::Owned> = xs.iter().map(A::own).collect();
	let outs: Vec<Out> = {
		let mut f = m.clone().into_fn();
		owned.iter().map(|o| f(A::bor(o)).into_out()).collect()
	};
	for o in &owned {
		m.next(A::bor(o));
	}
	Some(outs)
}

/// batch entry points for methods with a sized input
fn batch_sized<M, A>(m: &mut M, api: u8, xs: &[In]) -> Option<Vec<Out>>
where
	M: Method + Clone + 'static,
	A: InAd<Ref = M::Input, Owned = M::Input>,
	M::Input: Sized + Clone + 'static,
	M::Output: IntoOut,
	Vec<M::Input>: Sequence<M::Input>,
	for<'a> &'a [M::Input]: Sequence<M::Input>,
{
	let owned: Vec<M::Input> = xs.iter().map(A::own).collect();
	match api {
		0 => Some(m.over(&owned[..]).into_iter().map(IntoOut::into_out).collect()),
		1 => Some(m.over(owned).into_iter().map(IntoOut::into_out).collect()),
		2 => Some(owned.call(m).into_iter().map(IntoOut::into_out).collect()),
		4 => batch_fn::<M, A>(m, api, xs),
		_ => None,
	}
}

fn batch_vv<M>(m: &mut M, api: u8, xs: &[In]) -> Option<Vec<Out>>
where
	M: Method<Input = ValueType, Output = ValueType> + Clone + 'static,
{
	if api == 3 {
		let mut owned: Vec<ValueType> = xs.iter().map(IVal::own).collect();
		m.apply(&mut owned);
		return Some(owned.into_iter().map(IntoOut::into_out).collect());
	}
	batch_sized::<M, IVal>(m, api, xs)
}

macro_rules! caps {
	(@peek yes $m:ty) => { Some(peek_of::<$m, _> as fn(&$m) -> Out) };
	(@peek no $m:ty) => { None };
	(@snap yes $m:ty) => { Some(snap_of::<$m> as fn(&$m, &SerCtl) -> Result<Value, SimErr>) };
	(@snap no $m:ty) => { None };
	(@restore yes $m:ty) => { Some(restore_of::<$m> as fn(&Value) -> Result<$m, SimErr>) };
	(@restore no $m:ty) => { None };
	(@json yes $m:ty) => { Some(json_of::<$m> as fn(&$m) -> Result<$m, String>) };
	(@json no $m:ty) => { None };
	(@batch vv $m:ty) => { Some(batch_vv::<$m> as fn(&mut $m, u8, &[In]) -> Option<Vec<Out>>) };
	(@batch pair $m:ty) => { Some(batch_fn::<$m, IPair> as fn(&mut $m, u8, &[In]) -> Option<Vec<Out>>) };
	(@batch dync $m:ty) => { Some(batch_fn::<$m, IDyn> as fn(&mut $m, u8, &[In]) -> Option<Vec<Out>>) };
	(@batch val $m:ty) => { Some(batch_sized::<$m, IVal> as fn(&mut $m, u8, &[In]) -> Option<Vec<Out>>) };
	(@batch candle $m:ty) => { Some(batch_sized::<$m, ICandle> as fn(&mut $m, u8, &[In]) -> Option<Vec<Out>>) };
	(@batch none $m:ty) => { None };
}

#[derive(Clone, Copy, Debug, PartialEq, Eq)]
pub enum InKind {
	Val,
	Pair,
	Candle,
}
#[derive(Clone, Copy, Debug, PartialEq, Eq)]
pub enum PKind {
	Len,
	Two,
	Unit,
	Weights,
	Usize,
	Renko,
	Ma,
}

pub struct MethodInfo {
	pub name: &'static str,
	pub input: InKind,
	pub pkind: PKind,
	pub peek: bool,
	pub serde: bool,
	pub batch: bool,
	/// Ok(Ok(sut)) | Ok(Err(yata error text)); panics propagate (callers guard)
	pub make: fn(&Params, &In) -> Result<Box<dyn Sut>, String>,
	/// Method::new_over on the first chunk (None when the input is unsized)
	pub new_over: Option<fn(&Params, &[In]) -> Result<Vec<Out>, String>>,
	/// Method::new_apply (ValueType -> ValueType methods only)
	pub new_apply: Option<fn(&Params, &[In]) -> Result<Vec<Out>, String>>,
	/// Method::new_fn: closure created from the first element and applied to every element
	pub new_fn: Option<fn(&Params, &[In]) -> Result<Vec<Out>, String>>,
}

macro_rules! param {
	(Len, $p:expr) => {
		match $p {
			Params::Len(n) => *n as PeriodType,
			_ => return Err("bad params".into()),
		}
	};
	(Two, $p:expr) => {
		match $p {
			Params::Two(a, b) => (*a as PeriodType, *b as PeriodType),
			_ => return Err("bad params".into()),
		}
	};
	(Unit, $p:expr) => {
		()
	};
	(Weights, $p:expr) => {
		match $p {
			Params::Weights(w) => w.iter().map(|x| x.0 as ValueType).collect::<Vec<ValueType>>(),
			_ => return Err("bad params".into()),
		}
	};
	(Usize, $p:expr) => {
		match $p {
			Params::Usize(n) => *n as usize,
			_ => return Err("bad params".into()),
		}
	};
	(Renko, $p:expr) => {
		match $p {
			Params::Renko(s, src) => (s.0 as ValueType, SOURCES[(*src as usize) % 8]),
			_ => return Err("bad params".into()),
		}
	};
}

macro_rules! sut {
	($name:literal, $m:ty, $ad:ty, $ik:ident, $pk:ident, peek=$peek:tt, serde=$serde:tt, batch=$batch:tt) => {{
		static CAPS: Caps<$m> = Caps {
			peek: caps!(@peek $peek $m),
			snap: caps!(@snap $serde $m),
			restore: caps!(@restore $serde $m),
			json: caps!(@json $serde $m),
			batch: caps!(@batch $batch $m),
		};
		fn make(p: &Params, first: &In) -> Result<Box<dyn Sut>, String> {
			let o = <$ad as InAd>::own(first);
			let params = param!($pk, p);
			match <$m as Method>::new(params, <$ad as InAd>::bor(&o)) {
				Ok(m) => Ok(Box::new(W::<$m, $ad> { m, caps: &CAPS, _a: std::marker::PhantomData })),
				Err(e) => Err(format!("{e:?}")),
			}
		}
		MethodInfo {
			name: $name,
			input: InKind::$ik,
			pkind: PKind::$pk,
			peek: CAPS.peek.is_some(),
			serde: CAPS.snap.is_some(),
			batch: CAPS.batch.is_some(),
			make,
			new_over: sut!(@newover $batch $m, $ad, $pk),
			new_apply: sut!(@newapply $batch $m, $pk),
			new_fn: {
				fn f(p: &Params, xs: &[In]) -> Result<Vec<Out>, String> {
					let owned: Vec<<$ad as InAd>::Owned> = xs.iter().map(<$ad as InAd>::own).collect();
					if owned.is_empty() {
						return Ok(Vec::new());
					}
					let params = param!($pk, p);
					let mut f = <$m as Method>::new_fn(params, <$ad as InAd>::bor(&owned[0])).map_err(|e| format!("{e:?}"))?;
					Ok(owned.iter().map(|o| f(<$ad as InAd>::bor(o)).into_out()).collect())
				}
				Some(f as fn(&Params, &[In]) -> Result<Vec<Out>, String>)
			},
		}
	}};
	(@newover none $m:ty, $ad:ty, $pk:ident) => { None };
	(@newover pair $m:ty, $ad:ty, $pk:ident) => { None };
	(@newover dync $m:ty, $ad:ty, $pk:ident) => { None };
	(@newover $b:tt $m:ty, $ad:ty, $pk:ident) => {{
		fn f(p: &Params, xs: &[In]) -> Result<Vec<Out>, String> {
			let owned: Vec<<$m as Method>::Input> = xs.iter().map(<$ad as InAd>::own).collect();
			let params = param!($pk, p);
			<$m as Method>::new_over(params, &owned)
				.map(|v| v.into_iter().map(IntoOut::into_out).collect())
				.map_err(|e| format!("{e:?}"))
		}
		Some(f as fn(&Params, &[In]) -> Result<Vec<Out>, String>)
	}};
	(@newapply vv $m:ty, $pk:ident) => {{
		fn f(p: &Params, xs: &[In]) -> Result<Vec<Out>, String> {
			let mut owned: Vec<ValueType> = xs.iter().map(IVal::own).collect();
			let params = param!($pk, p);
			<$m as Method>::new_apply(params, &mut owned).map_err(|e| format!("{e:?}"))?;
			Ok(owned.into_iter().map(IntoOut::into_out).collect())
		}
		Some(f as fn(&Params, &[In]) -> Result<Vec<Out>, String>)
	}};
	(@newapply $b:tt $m:ty, $pk:ident) => { None };
}

// MA-dispatched instance: constructed through MA::init, not Method::new
static MA_CAPS: Caps<MAInstance> = Caps {
	peek: None,
	snap: Some(snap_of::<MAInstance>),
	restore: Some(restore_of::<MAInstance>),
	json: Some(json_of::<MAInstance>),
	batch: Some(batch_vv::<MAInstance>),
};
fn make_ma(p: &Params, first: &In) -> Result<Box<dyn Sut>, String> {
	let Params::Ma(k, n) = p else { return Err("bad params".into()) };
	match ma_of(*k, *n).init(first.val() as ValueType) {
		Ok(m) => Ok(Box::new(W::<MAInstance, IVal> {
			m,
			caps: &MA_CAPS,
			_a: std::marker::PhantomData,
		})),
		Err(e) => Err(format!("{e:?}")),
	}
}

pub fn methods() -> Vec<MethodInfo> {
	vec![
		sut!("SMA", SMA, IVal, Val, Len, peek = yes, serde = yes, batch = vv),
		sut!("WMA", WMA, IVal, Val, Len, peek = yes, serde = yes, batch = vv),
		sut!("SWMA", SWMA, IVal, Val, Len, peek = yes, serde = yes, batch = vv),
		sut!("TRIMA", TRIMA, IVal, Val, Len, peek = yes, serde = yes, batch = vv),
		sut!("HMA", HMA, IVal, Val, Len, peek = yes, serde = yes, batch = vv),
		sut!("LinReg", LinReg, IVal, Val, Len, peek = yes, serde = yes, batch = vv),
		sut!("Conv", Conv, IVal, Val, Weights, peek = yes, serde = yes, batch = vv),
		sut!("VWMA", VWMA, IPair, Pair, Len, peek = yes, serde = yes, batch = pair),
		sut!("Integral", Integral, IVal, Val, Len, peek = yes, serde = yes, batch = vv),
		sut!("Derivative", Derivative, IVal, Val, Len, peek = no, serde = yes, batch = vv),
		sut!("Momentum", Momentum, IVal, Val, Len, peek = no, serde = yes, batch = vv),
		sut!("RateOfChange", RateOfChange, IVal, Val, Len, peek = no, serde = yes, batch = vv),
		sut!("Past", Past<ValueType>, IVal, Val, Len, peek = yes, serde = yes, batch = vv),
		sut!("StDev", StDev, IVal, Val, Len, peek = yes, serde = yes, batch = vv),
		sut!("MeanAbsDev", MeanAbsDev, IVal, Val, Len, peek = yes, serde = yes, batch = vv),
		sut!("MedianAbsDev", MedianAbsDev, IVal, Val, Len, peek = yes, serde = yes, batch = vv),
		sut!("CCI", CCI, IVal, Val, Len, peek = no, serde = yes, batch = vv),
		sut!("LinearVolatility", LinearVolatility, IVal, Val, Len, peek = yes, serde = yes, batch = vv),
		sut!("ADI", ADI, IDyn, Candle, Len, peek = yes, serde = yes, batch = dync),
		sut!("EMA", EMA, IVal, Val, Len, peek = yes, serde = yes, batch = vv),
		sut!("DMA", DMA, IVal, Val, Len, peek = yes, serde = yes, batch = vv),
		sut!("TMA", TMA, IVal, Val, Len, peek = yes, serde = yes, batch = vv),
		sut!("DEMA", DEMA, IVal, Val, Len, peek = yes, serde = yes, batch = vv),
		sut!("TEMA", TEMA, IVal, Val, Len, peek = yes, serde = yes, batch = vv),
		sut!("RMA", RMA, IVal, Val, Len, peek = yes, serde = yes, batch = vv),
		sut!("WSMA", WSMA, IVal, Val, Len, peek = yes, serde = yes, batch = vv),
		sut!("TSI", TSI, IVal, Val, Two, peek = yes, serde = yes, batch = vv),
		sut!("Vidya", Vidya, IVal, Val, Len, peek = yes, serde = yes, batch = vv),
		sut!("TR", TR, IDyn, Candle, Unit, peek = no, serde = yes, batch = dync),
		sut!("HeikinAshi", HeikinAshi, IDyn, Candle, Unit, peek = no, serde = yes, batch = dync),
		sut!("Highest", Highest, IVal, Val, Len, peek = yes, serde = yes, batch = vv),
		sut!("Lowest", Lowest, IVal, Val, Len, peek = yes, serde = yes, batch = vv),
		sut!("HighestLowestDelta", HighestLowestDelta, IVal, Val, Len, peek = yes, serde = yes, batch = vv),
		sut!("HighestIndex", HighestIndex, IVal, Val, Len, peek = yes, serde = yes, batch = val),
		sut!("LowestIndex", LowestIndex, IVal, Val, Len, peek = yes, serde = yes, batch = val),
		sut!("SMM", SMM, IVal, Val, Len, peek = yes, serde = yes, batch = vv),
		sut!("Cross", Cross, IPair, Pair, Unit, peek = no, serde = yes, batch = pair),
		sut!("CrossAbove", CrossAbove, IPair, Pair, Unit, peek = no, serde = yes, batch = pair),
		sut!("CrossUnder", CrossUnder, IPair, Pair, Unit, peek = no, serde = yes, batch = pair),
		sut!("ReversalSignal", ReversalSignal, IVal, Val, Two, peek = no, serde = yes, batch = val),
		sut!("UpperReversalSignal", UpperReversalSignal, IVal, Val, Two, peek = no, serde = yes, batch = val),
		sut!("LowerReversalSignal", LowerReversalSignal, IVal, Val, Two, peek = no, serde = yes, batch = val),
		sut!("CollapseTimeframe", CollapseTimeframe<Candle>, ICandle, Candle, Usize, peek = no, serde = yes, batch = candle),
		sut!("Renko", Renko, IDyn, Candle, Renko, peek = no, serde = yes, batch = dync),
		sut!("WithHistory<SMA>", yata::helpers::WithHistory<SMA, ValueType>, IVal, Val, Len, peek = no, serde = no, batch = vv),
		sut!("WithLastValue<EMA>", yata::helpers::WithLastValue<EMA, ValueType>, IVal, Val, Len, peek = yes, serde = no, batch = vv),
		sut!("WithLastValue<WMA>", yata::helpers::WithLastValue<WMA, ValueType>, IVal, Val, Len, peek = yes, serde = no, batch = vv),
		MethodInfo {
			name: "MAInstance",
			input: InKind::Val,
			pkind: PKind::Ma,
			peek: false,
			serde: true,
			batch: true,
			make: make_ma,
			new_over: None,
			new_apply: None,
			new_fn: None,
		},
	]
}

pub fn method(name: &str) -> Option<MethodInfo> {
	methods().into_iter().find(|m| m.name == name)
}
