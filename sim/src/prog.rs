//! Programs and transcripts for the heterogeneous-build checks (C19, C20): a program is an explicit case (built by the
//! default build's generator, parameters fit u8); every build executes it and emits a transcript of everything
//! observable (results, Ok/Err/panic classifications, normalised snapshots). Transcripts are compared across builds.

use crate::c01;
use crate::common::*;
use crate::meng::{self, MCase, Made, Op};
use crate::rng::Rng;
use crate::simfmt::{self, SerCtl, Value};
use crate::sut::{self, Out, Params};
use serde::{Deserialize, Serialize};
use std::collections::VecDeque;
use std::fmt::Write;
use yata::core::{PeriodType, ValueType, Window};

#[derive(Clone, Debug, Serialize, Deserialize)]
pub enum Program {
	Win(c01::Case),
	Sut(MCase),
}

/// structural hash of a snapshot tree with integer widths normalised (u8 5 == u16 5)
pub fn norm_hash(v: &Value) -> u64 {
	let mut h: u64 = 0xcbf2_9ce4_8422_2325;
	let mut feed = |x: u64| {
		h = (h ^ x).wrapping_mul(0x0000_0100_0000_01b3).rotate_left(11);
	};
	v.walk(&mut |n| match n {
		Value::U8(_) | Value::U16(_) | Value::U32(_) | Value::U64(_) | Value::I8(_) | Value::I16(_) | Value::I32(_) | Value::I64(_) => {
			feed(1);
			feed(n.as_u64().unwrap_or(u64::MAX));
		}
		Value::F32(b) => {
			feed(2);
			feed(u64::from(*b));
		}
		Value::F64(b) => {
			feed(3);
			feed(*b);
		}
		Value::Bool(b) => feed(4 + u64::from(*b)),
		Value::Str(s) | Value::UnitStruct(s) => feed(crate::rng::fnv(s)),
		Value::Struct(n, f) => {
			feed(crate::rng::fnv(n));
			for (k, _) in f {
				feed(crate::rng::fnv(k));
			}
		}
		Value::UnitVariant(_, v) | Value::NewtypeVariant(_, v, _) | Value::TupleVariant(_, v, _) | Value::StructVariant(_, v, _) => feed(crate::rng::fnv(v)),
		Value::Seq(s) | Value::Tuple(s) | Value::TupleStruct(_, s) => feed(100 + s.len() as u64),
		Value::None => feed(7),
		Value::Some(_) => feed(8),
		_ => feed(9),
	});
	h
}

fn out_str(o: &Out) -> String {
	let mut s = format!("{}:", o.tag);
	for w in o.words() {
		let _ = write!(s, "{w:x},");
	}
	s
}

/// C20 compares builds whose internal position counters have different widths: serialized internal state may
/// legitimately differ (e.g. re-based stream positions), results may not. C19 (same PeriodType) keeps the hashes.
pub static SNAPSHOT_HASHES: std::sync::atomic::AtomicBool = std::sync::atomic::AtomicBool::new(true);

fn snap_hash(t: &Value) -> u64 {
	if SNAPSHOT_HASHES.load(std::sync::atomic::Ordering::Relaxed) {
		norm_hash(t)
	} else {
		0
	}
}

pub struct Transcript {
	pub lines: Vec<String>,
	pub panicked: bool,
}

impl Transcript {
	pub fn hash(&self) -> u64 {
		self.lines.iter().fold(0u64, |h, l| (h ^ crate::rng::fnv(l)).wrapping_mul(0x0000_0100_0000_01b3).rotate_left(13))
	}
}

fn win_transcript<T: c01::Elem>(case: &c01::Case) -> Transcript {
	let mut lines = Vec::new();
	let mut panicked = false;
	let mut next_label: u32 = match case.ctor {
		c01::Ctor::FromVec { n } | c01::Ctor::FromBox { n } | c01::Ctor::FromParts { n, .. } => n as u32 + 1,
		_ => 1,
	};
	let mut fresh = || {
		let l = T::label(next_label);
		next_label += 1;
		l
	};
	let made: Result<Window<T>, String> = guarded(|| match &case.ctor {
		c01::Ctor::New { n } => Window::new(*n as PeriodType, T::label(0)),
		c01::Ctor::Empty => Window::empty(),
		c01::Ctor::Default => Window::default(),
		c01::Ctor::FromVec { n } => Window::from((0..*n).map(|i| T::label(i as u32 + 1)).collect::<Vec<T>>()),
		c01::Ctor::FromBox { n } => Window::from((0..*n).map(|i| T::label(i as u32 + 1)).collect::<Vec<T>>().into_boxed_slice()),
		c01::Ctor::FromParts { n, idx } => Window::from_parts((0..*n).map(|i| T::label(i as u32 + 1)).collect::<Vec<T>>().into_boxed_slice(), *idx as PeriodType),
	});
	let mut w = match made {
		Ok(w) => w,
		Err(p) => {
			return Transcript {
				lines: vec![format!("ctor panic {p}")],
				panicked: true,
			}
		}
	};
	let _model: VecDeque<T> = VecDeque::new();
	for op in &case.ops {
		let r: Result<String, String> = guarded(|| match op {
			c01::WOp::Push => format!("push {:?}", w.push(fresh())),
			c01::WOp::Get(i) => format!("get {:?}", w.get(*i as PeriodType)),
			c01::WOp::Index(i) => format!("idx {:?}", w[*i as PeriodType]),
			c01::WOp::Newest => format!("newest {:?}", w.newest()),
			c01::WOp::Oldest => format!("oldest {:?}", w.oldest()),
			c01::WOp::Len => format!("len {} {}", w.len(), w.is_empty()),
			c01::WOp::Slice => {
				let mut v: Vec<String> = w.as_slice().iter().map(|x| format!("{x:?}")).collect();
				v.sort();
				format!("slice {v:?}")
			}
			c01::WOp::Iter { dir, k, ask } => {
				fn go<'a, T: std::fmt::Debug + 'a, I: Iterator<Item = &'a T> + ExactSizeIterator>(mut it: I, k: u64, ask: u8) -> String {
					for _ in 0..k {
						it.next();
					}
					match ask {
						0 => format!("{:?}", it.size_hint()),
						1 => format!("{}", it.len()),
						2 => format!("{}", it.count()),
						3 => format!("{:?}", it.last()),
						4 => format!("{:?}", it.next()),
						_ => format!("{:?}", it.collect::<Vec<_>>()),
					}
				}
				let k = (*k).min(w.len() as u64 + 1);
				match dir {
					0 => format!("iter {}", go(w.iter(), k, *ask)),
					1 => format!("iter_rev {}", go(w.iter_rev(), k, *ask)),
					_ => format!("into_iter {}", go((&w).into_iter(), k, *ask)),
				}
			}
			c01::WOp::Rebuild(how) => {
				let tree = simfmt::to_value(&w).map_err(|e| e.0);
				match (how, tree) {
					(_, Err(e)) => format!("ser err {e}"),
					(1 | 2, Ok(t)) => match simfmt::from_value::<Window<T>>(&t) {
						Ok(w2) => {
							w = w2;
							format!("rebuilt {:x}", snap_hash(&t))
						}
						Err(e) => format!("rebuild err {e}"),
					},
					(3, Ok(_)) => match serde_json::to_string(&w).ok().and_then(|s| serde_json::from_str::<Window<T>>(&s).ok()) {
						Some(w2) => {
							w = w2;
							"rebuilt json".to_string()
						}
						None => "rebuild json err".to_string(),
					},
					(_, Ok(t)) => {
						w = w.clone();
						format!("clone {:x}", snap_hash(&t))
					}
				}
			}
			c01::WOp::Sweep => {
				let a: Vec<String> = w.iter().map(|x| format!("{x:?}")).collect();
				let b: Vec<String> = w.iter_rev().map(|x| format!("{x:?}")).collect();
				format!("sweep {a:?} {b:?}")
			}
			c01::WOp::SerFail(k) => {
				let probe = SerCtl::new(None);
				let _ = simfmt::to_value_ctl(&w, &probe);
				let ctl = SerCtl::new(Some(*k as usize % probe.calls.get().max(1)));
				format!("serfail {:?}", simfmt::to_value_ctl(&w, &ctl).map(|_| ()).map_err(|e| e.0))
			}
			c01::WOp::Corrupt(_) => "corrupt skipped".to_string(),
		});
		match r {
			Ok(s) => lines.push(s),
			Err(p) => {
				lines.push(format!("panic {p}"));
				panicked = true;
				break;
			}
		}
	}
	Transcript { lines, panicked }
}

pub fn run_program(p: &Program) -> Transcript {
	match p {
		Program::Win(c) => match c.elem.as_str() {
			"u32" => win_transcript::<u32>(c),
			"String" => win_transcript::<String>(c),
			"ValueType" => win_transcript::<ValueType>(c),
			_ => win_transcript::<(ValueType, ValueType)>(c),
		},
		Program::Sut(c) => sut_transcript(c),
	}
}

fn sut_transcript(case: &MCase) -> Transcript {
	let mut lines = Vec::new();
	let mut panicked = false;
	let Some(f) = meng::factory(case) else {
		return Transcript { lines: vec!["unknown sut".into()], panicked: false };
	};
	let mut s = match meng::construct(&f, &case.stream[0]) {
		Made::Ok(s) => {
			lines.push("new ok".into());
			s
		}
		Made::Rejected(e) => {
			return Transcript { lines: vec![format!("new err {e}")], panicked: false };
		}
		Made::Panicked(p) => {
			return Transcript { lines: vec![format!("new panic {p}")], panicked: true };
		}
	};
	let stream = &case.stream;
	let mut pos = 0usize;
	let mut snap: Option<(usize, Value)> = None;
	let mut fork: Option<(Box<dyn sut::Sut>, usize)> = None;
	let mut oi = 0usize;
	loop {
		let op = if oi < case.ops.len() {
			oi += 1;
			case.ops[oi - 1].clone()
		} else if pos < stream.len() {
			Op::Tick
		} else {
			break;
		};
		let r: Result<Option<String>, String> = guarded(|| match &op {
			Op::Tick => {
				if pos >= stream.len() {
					return None;
				}
				let o = s.next(&stream[pos]);
				pos += 1;
				Some(out_str(&o))
			}
			Op::Batch { api, k } => {
				let k = (*k as usize).min(stream.len() - pos);
				let chunk = &stream[pos..pos + k];
				let outs = match s.batch(*api, chunk) {
					Some(o) => o,
					None => chunk.iter().map(|x| s.next(x)).collect(),
				};
				pos += k;
				Some(format!("batch{} {}", api, outs.iter().map(out_str).collect::<Vec<_>>().join(" ")))
			}
			Op::Peek => s.peek().map(|o| format!("peek {}", out_str(&o))),
			Op::Snapshot { .. } => match s.snapshot(&SerCtl::new(None)) {
				Some(Ok(t)) => {
					let h = snap_hash(&t);
					snap = Some((pos, t));
					Some(format!("snap {h:x}"))
				}
				Some(Err(e)) => Some(format!("snap err {e}")),
				None => None,
			},
			Op::CrashRestore => {
				let Some((sp, t)) = &snap else { return None };
				match s.restore(t) {
					Some(Ok(mut r2)) => {
						let mut l = String::from("restored");
						for x in &stream[*sp..pos] {
							let _ = write!(l, " {}", out_str(&r2.next(x)));
						}
						s = r2;
						Some(l)
					}
					Some(Err(e)) => Some(format!("restore err {e}")),
					None => None,
				}
			}
			Op::Fork => {
				fork = Some((s.fork(), 0));
				Some("fork".into())
			}
			Op::ForkTick => {
				let Some((fk, j)) = &mut fork else { return None };
				if *j >= case.alt.len() {
					return None;
				}
				let o = fk.next(&case.alt[*j]);
				*j += 1;
				Some(format!("forktick {}", out_str(&o)))
			}
			Op::SerFail(k) => {
				let probe = SerCtl::new(None);
				let Some(Ok(_)) = s.snapshot(&probe) else { return None };
				let ctl = SerCtl::new(Some(*k as usize % probe.calls.get().max(1)));
				Some(format!("serfail {:?}", s.snapshot(&ctl).map(|r| r.map(|_| ()).map_err(|e| e.0))))
			}
			Op::Corrupt { kind, arg } => {
				let Some(Ok(t)) = s.snapshot(&SerCtl::new(None)) else { return None };
				let (d, _) = meng::damage(&t, *kind, *arg);
				let Some(d) = d else { return None };
				Some(format!("corrupt {}", match s.restore(&d) {
					Some(Ok(_)) => "accepted".to_string(),
					Some(Err(_)) => "rejected".to_string(),
					None => "n/a".to_string(),
				}))
			}
		});
		match r {
			Ok(Some(l)) => lines.push(l),
			Ok(None) => {}
			Err(p) => {
				lines.push(format!("panic {p}"));
				panicked = true;
				break;
			}
		}
	}
	Transcript { lines, panicked }
}

/// Window programs are cut just before the first operation on which the default build panics (documented panics:
/// push / newest / oldest on an empty window, Index out of range), so that the remaining prefix - e.g. `get(0)` on an
/// empty window - still takes part in the comparison instead of the whole program being filtered out
pub fn trim_to_non_panicking(p: &mut Program) {
	if let Program::Win(c) = p {
		for _ in 0..64 {
			let t = win_dispatch(c);
			if !t.panicked || t.lines.is_empty() {
				break;
			}
			let keep = t.lines.len() - 1;
			if keep >= c.ops.len() {
				break;
			}
			// drop the panicking operation, keep everything after it as well
			c.ops.remove(keep);
		}
	}
}

fn win_dispatch(c: &c01::Case) -> Transcript {
	match c.elem.as_str() {
		"u32" => win_transcript::<u32>(c),
		"String" => win_transcript::<String>(c),
		"ValueType" => win_transcript::<ValueType>(c),
		_ => win_transcript::<(ValueType, ValueType)>(c),
	}
}

/// programs drawn by the default build's generator; every parameter fits u8
pub fn gen_programs(seed: u64, count: u64, small: bool) -> Vec<Program> {
	let root = Rng::new(crate::rng::mix(seed, crate::rng::fnv("programs")));
	let slots = sut::methods().len() + crate::ieng::indicators().len();
	let mut v = Vec::new();
	let mut i = 0u64;
	while (v.len() as u64) < count {
		let run = root.sub_i("prog", i);
		let mut r = run.sub("kind");
		i += 1;
		if i % 4 == 0 {
			// window program (C01 generator, quick tier: capacities <= 254)
			let mut c = crate::common::Check::generate(&c01::C01, &run, i, Tier::Quick);
			c.ops.retain(|o| !matches!(o, c01::WOp::Corrupt(_)));
			if small {
				c.ops.truncate(40);
				if let c01::Ctor::New { n } | c01::Ctor::FromVec { n } | c01::Ctor::FromBox { n } = &mut c.ctor {
					*n = (*n).min(9);
				}
				if let c01::Ctor::FromParts { n, idx } = &mut c.ctor {
					*n = (*n).min(9);
					*idx = (*idx).min(*n - 1);
				}
			}
			if r.chance(0.12) {
				// empty windows: only the observers that do not panic by contract survive the trimming below
				c.ctor = [c01::Ctor::Empty, c01::Ctor::Default, c01::Ctor::New { n: 0 }][r.usize_below(3)].clone();
			}
			let mut p = Program::Win(c);
			trim_to_non_panicking(&mut p);
			v.push(p);
			continue;
		}
		// bias towards Window / SMM / median users for the in-bounds oracle
		let slot = if r.chance(0.35) {
			let names = ["SMM", "MedianAbsDev", "SMA", "Past", "HighestIndex", "Conv", "LowerReversalSignal", "MAInstance", "Highest", "Lowest", "LowestIndex", "HighestLowestDelta"];
			let n = names[r.usize_below(names.len())];
			sut::methods().iter().position(|m| m.name == n).unwrap_or(0)
		} else {
			r.usize_below(slots)
		};
		let len = if small { 12 + r.usize_below(30) } else { 30 + r.usize_below(250) };
		let Some(mut c) = crate::sched::draw_case(&run, slot, i, Tier::Quick, len, false) else { continue };
		// parameters must fit u8 in every build
		let fits = match &c.params {
			Params::Len(n) | Params::Ma(_, n) => *n <= 254,
			Params::Two(a, b) => a + b + 1 <= 254,
			Params::Weights(w) => w.len() <= 254,
			_ => true,
		};
		if !fits {
			continue;
		}
		if small {
			match &mut c.params {
				Params::Len(n) | Params::Ma(_, n) => *n = 2 + *n % 9,
				Params::Two(a, b) => {
					*a = 1 + *a % 4;
					*b = 1 + *b % 4;
				}
				Params::Weights(w) => w.truncate(7),
				_ => {}
			}
			c.stream.truncate(len);
			if c.cfg.is_some() {
				let info = crate::ieng::indicator(&c.sut).unwrap();
				c.cfg = Some((info.default_cfg)());
			}
		}
		let (peek, serde) = if c.cfg.is_some() {
			(false, crate::ieng::indicator(&c.sut).map_or(false, |x| x.inst_serde))
		} else {
			let m = sut::method(&c.sut).unwrap();
			(m.peek, m.serde)
		};
		let n = c.params.len();
		// storage faults are build dependent by construction (they target PeriodType::MAX and byte offsets): C13 injects them in-build
		c.ops = meng::gen_ops(&mut run.sub("ops"), c.stream.len(), n, peek, serde, false, true);
		v.push(Program::Sut(c));
	}
	v
}
