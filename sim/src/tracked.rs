//! Tracked numbers (DESIGN.md §3.2): a reference value computed in f64 together with an absolute bound that covers
//! the reference's own rounding and the rounding the implementation is permitted. `e = +inf` encodes "undefined".

use yata::core::ValueType;

/// unit roundoff scale of the implementation's arithmetic
pub const U: f64 = ValueType::EPSILON as f64;

/// spacing of the subnormal range of `ValueType`: one rounded operation on subnormal values errs by up to half of it
pub const ETA: f64 = ValueType::from_bits(1) as f64;

#[derive(Clone, Copy, Debug, PartialEq)]
pub struct T {
	pub v: f64,
	pub e: f64,
}

#[derive(Clone, Copy, Debug, PartialEq, Eq)]
pub enum Tri {
	True,
	False,
	Unknown,
}

impl Tri {
	pub fn and(self, o: Tri) -> Tri {
		match (self, o) {
			(Tri::False, _) | (_, Tri::False) => Tri::False,
			(Tri::True, Tri::True) => Tri::True,
			_ => Tri::Unknown,
		}
	}
	pub fn or(self, o: Tri) -> Tri {
		match (self, o) {
			(Tri::True, _) | (_, Tri::True) => Tri::True,
			(Tri::False, Tri::False) => Tri::False,
			_ => Tri::Unknown,
		}
	}
	pub fn not(self) -> Tri {
		match self {
			Tri::True => Tri::False,
			Tri::False => Tri::True,
			Tri::Unknown => Tri::Unknown,
		}
	}
	pub fn from_bool(b: bool) -> Tri {
		if b {
			Tri::True
		} else {
			Tri::False
		}
	}
	pub fn known(self) -> Option<bool> {
		match self {
			Tri::True => Some(true),
			Tri::False => Some(false),
			Tri::Unknown => None,
		}
	}
}

/// error bound of a sum or difference that is known to be exact: numerically zero (comparisons on it are decided), but
/// marked by its sign so that exactness does not propagate through a *second* addition - a chain of two or more
/// additions can legitimately be associated differently by an implementation, a single one cannot.
pub const DERIVED_EXACT: f64 = -0.0;

#[inline]
fn emax(a: f64, b: f64) -> f64 {
	if a == 0.0 && b == 0.0 {
		if a.is_sign_negative() || b.is_sign_negative() {
			DERIVED_EXACT
		} else {
			0.0
		}
	} else {
		a.max(b)
	}
}

/// `s = fl(a + b)` carries no rounding (TwoSum error term zero) and is representable in `ValueType`: every IEEE
/// implementation that forms this sum or difference of two exactly known operands with one operation returns exactly
/// `s`, so the tracked result keeps `e = 0` and comparisons on it (ties of price moves on a tick grid) stay decidable.
#[inline]
pub fn sum_is_exact(a: f64, b: f64, s: f64) -> bool {
	if !s.is_finite() {
		return false;
	}
	let bb = s - a;
	let err = (a - (s - bb)) + (b - bb);
	err == 0.0 && (s as ValueType) as f64 == s
}

impl T {
	pub const UND: T = T {
		v: f64::NAN,
		e: f64::INFINITY,
	};
	#[inline]
	pub fn exact(v: f64) -> T {
		T { v, e: 0.0 }
	}
	#[inline]
	pub fn new(v: f64, e: f64) -> T {
		if v.is_finite() && e.is_finite() {
			T { v, e }
		} else {
			T::UND
		}
	}
	/// an input field or a constant (bound +0.0), as opposed to a derived exact quantity (bound -0.0)
	#[inline]
	pub fn primary(self) -> bool {
		self.e.to_bits() == 0
	}
	#[inline]
	pub fn und(self) -> bool {
		!self.e.is_finite() || !self.v.is_finite()
	}
	/// magnitude bound |v| + e
	#[inline]
	pub fn mag(self) -> f64 {
		if self.und() {
			f64::INFINITY
		} else {
			self.v.abs() + self.e
		}
	}
	#[inline]
	pub fn add(self, o: T) -> T {
		let v = self.v + o.v;
		if self.primary() && o.primary() && sum_is_exact(self.v, o.v, v) {
			return T::new(v, DERIVED_EXACT);
		}
		// (a sum that lands in the subnormal range is exact: no η here)
		T::new(v, self.e + o.e + U * v.abs())
	}
	#[inline]
	pub fn sub(self, o: T) -> T {
		let v = self.v - o.v;
		if self.primary() && o.primary() && sum_is_exact(self.v, -o.v, v) {
			return T::new(v, DERIVED_EXACT);
		}
		T::new(v, self.e + o.e + U * v.abs())
	}
	#[inline]
	pub fn neg(self) -> T {
		T { v: -self.v, e: self.e }
	}
	#[inline]
	pub fn mul(self, o: T) -> T {
		let v = self.v * o.v;
		// η: a product may underflow; a product with an exactly known zero is an exact zero
		let eta = if self.v == 0.0 || o.v == 0.0 { 0.0 } else { ETA };
		T::new(v, self.v.abs() * o.e + o.v.abs() * self.e + self.e * o.e + U * v.abs() + eta)
	}
	/// multiplication by a constant (the constant itself may carry one rounding, e.g. a stored reciprocal)
	#[inline]
	pub fn scale(self, c: f64) -> T {
		let v = self.v * c;
		let eta = if self.v == 0.0 || c == 0.0 { 0.0 } else { ETA };
		T::new(v, c.abs() * self.e + 2.0 * U * v.abs() + eta)
	}
	#[inline]
	pub fn div(self, o: T) -> T {
		if self.und() || o.und() || o.v.abs() <= 2.0 * o.e || o.v == 0.0 {
			return T::UND;
		}
		let q = self.v / o.v;
		let eta = if self.v == 0.0 { 0.0 } else { ETA };
		T::new(q, (self.e + q.abs() * o.e) / (o.v.abs() - o.e) + U * q.abs() + eta)
	}
	#[inline]
	pub fn abs(self) -> T {
		T {
			v: self.v.abs(),
			e: self.e,
		}
	}
	#[inline]
	pub fn sqrt(self) -> T {
		if self.und() {
			return T::UND;
		}
		let a = self.v.max(0.0);
		let v = a.sqrt();
		T::new(v, (a + self.e).sqrt() - (self.v - self.e).max(0.0).sqrt() + U * v)
	}
	#[inline]
	pub fn max(self, o: T) -> T {
		if self.und() || o.und() {
			return T::UND;
		}
		T {
			v: self.v.max(o.v),
			e: emax(self.e, o.e),
		}
	}
	#[inline]
	pub fn min(self, o: T) -> T {
		if self.und() || o.und() {
			return T::UND;
		}
		T {
			v: self.v.min(o.v),
			e: emax(self.e, o.e),
		}
	}
	/// widen the bound by an absolute amount
	#[inline]
	pub fn widen(self, d: f64) -> T {
		T::new(self.v, self.e + d)
	}
	#[inline]
	pub fn lt(self, o: T) -> Tri {
		if self.und() || o.und() {
			return Tri::Unknown;
		}
		if self.v + self.e < o.v - o.e {
			Tri::True
		} else if self.v - self.e >= o.v + o.e {
			Tri::False
		} else {
			Tri::Unknown
		}
	}
	#[inline]
	pub fn le(self, o: T) -> Tri {
		o.lt(self).not()
	}
	#[inline]
	pub fn gt(self, o: T) -> Tri {
		o.lt(self)
	}
	#[inline]
	pub fn ge(self, o: T) -> Tri {
		self.lt(o).not()
	}
	/// does an implementation output comply?
	#[inline]
	pub fn complies(self, y: f64) -> bool {
		self.und() || (y - self.v).abs() <= self.e
	}
	/// clamp the reference into [lo, hi] (the implementation clamps too); error unchanged
	pub fn clamp(self, lo: f64, hi: f64) -> T {
		if self.und() {
			return T::UND;
		}
		T {
			v: self.v.clamp(lo, hi),
			e: self.e,
		}
	}
}

/// Neumaier-compensated sum of tracked terms: value error O(u max|term|), input errors add up
pub fn sum(xs: impl Iterator<Item = T>) -> T {
	let mut s = 0.0f64;
	let mut c = 0.0f64;
	let mut e = 0.0f64;
	let mut big = 0.0f64;
	for x in xs {
		if x.und() {
			return T::UND;
		}
		let t = s + x.v;
		if s.abs() >= x.v.abs() {
			c += (s - t) + x.v;
		} else {
			c += (x.v - t) + s;
		}
		s = t;
		e += x.e;
		big = big.max(x.v.abs());
	}
	let v = s + c;
	T::new(v, e + 4.0 * f64::EPSILON * big.max(v.abs()))
}

/// weighted sum with exact weights: sum w_i x_i
pub fn wsum(ws: impl Iterator<Item = (f64, T)>) -> T {
	sum(ws.map(|(w, x)| {
		if x.und() {
			T::UND
		} else {
			T::new(w * x.v, w.abs() * x.e + f64::EPSILON * (w * x.v).abs())
		}
	}))
}
