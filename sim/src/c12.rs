//! C12 — documented value ranges and ordering invariants hold on every valid stream: invariant monitors on
//! indicator and method runs under volatile -> exactly flat -> volatile regimes and zero-volume bars.

use crate::cfgmut;
use crate::common::*;
use crate::meng::{self, MCase};
use crate::rng::Rng;
use crate::simfmt::Value;
use crate::sut::{self, In, Out, Params, T_RESULT};
use crate::tracked::U;
use serde_json::json;
use yata::core::OHLCV;

pub struct C12;

const IND: &[&str] = &[
	"Aroon", "RelativeStrengthIndex", "MoneyFlowIndex", "StochasticOscillator", "ChandeMomentumOscillator", "ChaikinMoneyFlow",
	"TrueStrengthIndex", "SMIErgodicIndicator", "BollingerBands", "KeltnerChannel", "PriceChannelStrategy", "Envelopes",
	"DonchianChannel", "ParabolicSAR",
];
const MET: &[&str] = &["LinearVolatility", "StDev", "MeanAbsDev", "MedianAbsDev", "TR", "TSI"];
const NO_OVERSHOOT: &[&str] = &["sma", "wma", "swma", "trima", "ema", "dma", "tma", "rma", "wsma", "smm"];

fn field_u(cfg: &Value, name: &str) -> u64 {
	cfg.field(name).and_then(Value::as_u64).unwrap_or(0)
}
fn field_f(cfg: &Value, name: &str) -> f64 {
	cfg.field(name).and_then(Value::as_f64).unwrap_or(f64::NAN)
}

fn volume_source(cfg: &Value) -> bool {
	let mut v = false;
	cfg.walk(&mut |x| {
		if let Value::UnitVariant(e, s) = x {
			if e == "Source" && (s == "volume" || s == "volumed_price") {
				v = true;
			}
		}
	});
	v
}

impl Check for C12 {
	type Case = MCase;
	fn id(&self) -> &'static str {
		"C12"
	}
	fn runs(&self, tier: Tier) -> u64 {
		let slots = (IND.len() + MET.len() + crate::ieng::indicators().len() + 1) as u64;
		match tier {
			Tier::Quick => slots * 1_200,
			Tier::Thorough => slots * 20_000,
		}
	}
	fn generate(&self, root: &Rng, i: u64, tier: Tier) -> MCase {
		let all_inds = crate::ieng::indicators();
		let slots = IND.len() + MET.len() + all_inds.len() + 1;
		let s = (i % slots as u64) as usize;
		let k = i / slots as u64;
		let run = root.sub_i("run", i);
		let nm = sut::methods().len();
		let mut rl = run.sub("len");
		let len = 60 + rl.usize_below(if tier == Tier::Quick { 500 } else { 2500 });
		let slot = if s < IND.len() {
			nm + all_inds.iter().position(|x| x.name == IND[s]).unwrap()
		} else if s < IND.len() + MET.len() {
			sut::methods().iter().position(|m| m.name == MET[s - IND.len()]).unwrap()
		} else if s < IND.len() + MET.len() + all_inds.len() {
			nm + (s - IND.len() - MET.len())
		} else {
			// clv on every candle of a stream: carried by the TR slot with a marker
			sut::methods().iter().position(|m| m.name == "TR").unwrap()
		};
		// k % 4 == 0 is the fault-free feed configuration (draw_case); the others get flats / zero volume
		let mut c = crate::sched::draw_case(&run, slot, k, tier, len, false).expect("case");
		if s == slots - 1 {
			c.sut = "clv".into();
		}
		// the regimes the property names: make sure an exactly flat stretch longer than every window occurs in the
		// fault-injecting configurations (volatile -> exactly flat -> volatile)
		if k % 4 != 0 && c.stream.len() > 40 {
			let w = (c.params.len() as usize).max(2);
			let mut rf = run.sub("flat");
			let start = 5 + rf.usize_below(c.stream.len() / 3);
			let flen = (w + 3 + rf.usize_below(2 * w + 5)).min(c.stream.len() - start - 1);
			let x = c.stream[start];
			let variant = rf.below(3);
			for j in 0..flen {
				c.stream[start + 1 + j] = match (x, variant) {
					(In::C(v), 1) => In::C([v[3], v[3], v[3], v[3], v[4]]), // degenerate bar at the close
					(In::C(v), 2) => In::C([v[0], v[1], v[2], v[3], Fx(0.0)]), // stuck prices, zero volume
					_ => x,
				};
			}
			*c.feed_faults.entry("feed:forced_flat_longer_than_window".into()).or_insert(0) += 1;
		}
		// one fault run in eight ends in a very long exactly flat tail: exponentially weighted state decays towards the
		// bottom of the floating-point range (quotients of two decayed averages must stay finite and in range)
		if k % 8 == 5 && c.stream.len() > 10 {
			let mut rt = run.sub("flat_tail");
			let last = *c.stream.last().unwrap();
			let extra = 700 + rt.usize_below(900);
			c.stream.extend(std::iter::repeat(last).take(extra));
			// short smoothing periods decay fastest
			if let (Some(cfg), true) = (c.cfg.as_mut(), rt.chance(0.5)) {
				let before = cfg.clone();
				cfgmut::shrink_periods(cfg, 2 + rt.below(3));
				let info = all_inds.iter().find(|x| x.name == c.sut);
				let ok = info.map_or(false, |i| matches!(guarded(|| (i.validate)(cfg)), Ok(Ok(true))) && matches!(guarded(|| (i.make)(cfg, &c.stream[0])), Ok(Ok(_))));
				if !ok {
					*cfg = before;
				}
			} else if let sut::Params::Two(a, b) = &mut c.params {
				if rt.chance(0.5) {
					*a = 1 + rt.below(3);
					*b = 1 + rt.below(3);
				}
			}
			*c.feed_faults.entry("feed:very_long_flat_tail".into()).or_insert(0) += 1;
		}
		c
	}
	fn execute(&self, case: &MCase, stats: &mut Stats) -> Vec<Violation> {
		let mut vs = Vec::new();
		for (k, v) in &case.feed_faults {
			stats.fault_n(k, *v);
		}
		stats.suts.insert(case.sut.clone());
		let name = case.sut.as_str();
		macro_rules! fail {
			($pred:expr, $t:expr, $($arg:tt)*) => {{
				vs.push(Violation::new("C12", name, $pred, $t, format!($($arg)*)).tag("length", case.params.len()));
				return vs;
			}};
		}
		if name == "clv" {
			for (t, x) in case.stream.iter().enumerate() {
				let c = x.candle();
				if !OHLCV::validate(&c) {
					continue;
				}
				let v = OHLCV::clv(&c) as f64;
				stats.checked += 1;
				// (2c - l - h) cancels at the scale of the prices and is divided by the range
				let range = (c.high - c.low) as f64;
				let tol = if range > 0.0 { 8.0 * U * (c.high as f64).abs() / range } else { 0.0 };
				if !(v >= -1.0 - tol && v <= 1.0 + tol) {
					fail!("clv_range", t, "clv of {c:?} = {v:e}");
				}
				let tr = OHLCV::tr_close(&c, c.close) as f64;
				if !(tr >= 0.0) {
					fail!("tr_nonnegative", t, "tr_close of {c:?} = {tr:e}");
				}
			}
			stats.cover("clv".into());
			return vs;
		}
		let Some(f) = meng::factory(case) else { return vs };
		let Ok(a) = meng::run_a(&f, &case.stream) else {
			stats.probe("run_a_failed_skipped (belongs to C10)");
			return vs;
		};
		stats.ticks += a.len() as u64;
		let n = case.params.len() as f64;
		// running magnitude of the history (price scale) for the allowance of band orderings
		let mut m = 0.0f64;
		let regime = if case.feed_faults.is_empty() { "calm" } else { "faulty" };
		stats.cover(format!("{name}|{}|{regime}", meng::len_class(case.params.len())));
		let cfg = case.cfg.as_ref();
		let kinds = cfg.map(cfgmut::ma_kinds_in).unwrap_or_default();
		let no_overshoot = kinds.iter().all(|k| NO_OVERSHOOT.contains(&k.as_str()));
		let vol_src = cfg.map_or(false, volume_source);
		if !no_overshoot {
			stats.probe("overshooting_ma_kind_range_exempt");
		}
		let period = cfg.map_or(0, |c| field_u(c, "period").max(field_u(c, "size"))) as usize;
		let src_idx = cfg
			.and_then(|c| c.field("source"))
			.and_then(|v| if let Value::UnitVariant(_, s) = v { cfgmut::SOURCE_SERDE_NAMES.iter().position(|x| x == s) } else { None })
			.unwrap_or(0);
		let srcv: Vec<f64> = case.stream.iter().map(|x| OHLCV::source(&x.candle(), sut::SOURCES[src_idx]) as f64).collect();
		let ma_period = cfg.map_or(0, cfgmut::max_period_in) as usize;
		let mut m_vol = 0.0f64;
		let mut m_src = 0.0f64;
		// TSI method: true double-smoothed absolute momentum (the denominator of the ratio) in f64, and the largest
		// momentum of the history; an EMA step `(x - prev)·α + prev` rounds at the scale of `prev`, which for α = 1
		// (period 1) is not contracted, so the ratio's allowance is that of the other residue quotients (hist / den)
		let tsi_alpha = if let sut::Params::Two(a, b) = &case.params { (2.0 / (*a as f64 + 1.0), 2.0 / (*b as f64 + 1.0)) } else { (1.0, 1.0) };
		let (mut tsi_e1, mut tsi_e2, mut tsi_mom, mut tsi_prev) = (0.0f64, 0.0f64, 0.0f64, case.stream.first().map_or(0.0, |x| x.val()));
		for (t, o) in a.iter().enumerate() {
			stats.log(o.hash());
			let cin = case.stream[t].candle_f64();
			m = m.max(cin[1].abs());
			let tt = (t as f64).min(1e4);
			// allowance of a ratio in a unit interval / of a price-scale quantity
			let tol_r = 64.0 * U * (n + tt + 8.0);
			let tol_p = 64.0 * U * (n + tt + 8.0) * m;
			let v = |i: usize| -> f64 {
				if o.tag == T_RESULT {
					o.f(2 + i)
				} else {
					o.f(i)
				}
			};
			m_vol = m_vol.max(cin[4].abs());
			m_src = m_src.max(srcv[t].abs());
			// ratios of running sums: the residue left in a sum is of the order u (n+t) M_history; it is divided by the
			// current size of the denominator. An exactly flat window (denominator 0) gets no extra allowance: the
			// property demands the interval there too.
			let win = |w: usize| (t + 1).saturating_sub(w.max(1))..=t;
			let den_moves = |w: usize| -> f64 { win(w).map(|j| if j == 0 { 0.0 } else { (srcv[j] - srcv[j - 1]).abs() }).sum() };
			let den_vol = |w: usize| -> f64 { win(w).map(|j| case.stream[j].candle_f64()[4]).sum() };
			let scaled = |hist: f64, den: f64| -> f64 { if den > 0.0 { tol_r * (hist / den).max(1.0) } else { tol_r } };
			if name == "TSI" {
				let x = case.stream[t].val();
				let mom = (x - tsi_prev).abs();
				tsi_prev = x;
				tsi_mom = tsi_mom.max(mom);
				tsi_e1 += (mom - tsi_e1) * tsi_alpha.0;
				tsi_e2 += (tsi_e1 - tsi_e2) * tsi_alpha.1;
			}
			let tol_r = match name {
				"TSI" => scaled(2.0 * tsi_mom, tsi_e2),
				"ChandeMomentumOscillator" => scaled(2.0 * m_src, den_moves(period)),
				"RelativeStrengthIndex" => scaled(2.0 * m_src, den_moves(ma_period)),
				"MoneyFlowIndex" => scaled(m_vol, den_vol(period)),
				"ChaikinMoneyFlow" => scaled(m_vol, den_vol(period)),
				_ => tol_r,
			};
			let in01 = |x: f64| x >= -tol_r && x <= 1.0 + tol_r;
			let in11 = |x: f64| x >= -1.0 - tol_r && x <= 1.0 + tol_r;
			stats.checked += 1;
			match name {
				"LinearVolatility" | "StDev" | "MeanAbsDev" | "MedianAbsDev" | "TR" => {
					let mh = case.stream[..=t].iter().fold(0.0f64, |m, x| m.max(x.val().abs()));
					if !(v(0) >= -64.0 * U * (n + tt + 8.0) * mh * n.max(1.0)) {
						fail!("dispersion_nonnegative", t, "output {:e} at step {t} is negative beyond the allowance, or NaN", v(0));
					}
					if !v(0).is_finite() {
						fail!("finite", t, "output {:e} at step {t}", v(0));
					}
				}
				"TSI" => {
					if !in11(v(0)) {
						fail!("range_-1_1", t, "TSI = {:e} at step {t}", v(0));
					}
				}
				"Aroon" => {
					if !in01(v(0)) || !in01(v(1)) {
						fail!("range_0_1", t, "Aroon up/down = {:e}/{:e} at step {t}", v(0), v(1));
					}
				}
				"RelativeStrengthIndex" if no_overshoot && !vol_src => {
					if !in01(v(0)) {
						fail!("range_0_1", t, "RSI = {:e} at step {t} ({kinds:?})", v(0));
					}
				}
				"MoneyFlowIndex" => {
					if !in01(v(1)) {
						fail!("range_0_1", t, "MFI = {:e} at step {t}", v(1));
					}
				}
				"StochasticOscillator" if no_overshoot => {
					if !in01(v(0)) || !in01(v(1)) {
						fail!("range_0_1", t, "Stochastic main/signal = {:e}/{:e} at step {t} ({kinds:?})", v(0), v(1));
					}
				}
				"ChandeMomentumOscillator" if !vol_src => {
					if !in11(v(0)) {
						fail!("range_-1_1", t, "CMO = {:e} at step {t}", v(0));
					}
				}
				"ChaikinMoneyFlow" => {
					// defined for non-zero total volume of the window
					let w = period.max(1);
					let tot: f64 = (t + 1 >= w).then(|| case.stream[t + 1 - w..=t].iter().map(|x| x.candle_f64()[4]).sum()).unwrap_or(1.0);
					let tot0 = case.stream[0].candle_f64()[4];
					if tot > 0.0 && (t + 1 >= w || tot0 > 0.0) {
						if !in11(v(0)) {
							fail!("range_-1_1", t, "CMF = {:e} at step {t} (total volume of the window {tot:e})", v(0));
						}
					} else {
						stats.exempt += 1;
					}
				}
				"TrueStrengthIndex" if !vol_src => {
					if !in11(v(0)) || !in11(v(1)) {
						fail!("range_-1_1", t, "TSI/signal = {:e}/{:e} at step {t}", v(0), v(1));
					}
				}
				"SMIErgodicIndicator" if no_overshoot && !vol_src => {
					if !in11(v(0)) || !in11(v(1)) {
						fail!("range_-1_1", t, "SMI tsi/signal = {:e}/{:e} at step {t}", v(0), v(1));
					}
				}
				"BollingerBands" => {
					if !(v(0) >= v(1) - tol_p && v(1) >= v(2) - tol_p) {
						fail!("band_order", t, "upper {:e}, middle {:e}, lower {:e} at step {t}", v(0), v(1), v(2));
					}
				}
				"KeltnerChannel" => {
					if !(v(1) >= v(2) - tol_p) {
						fail!("band_order", t, "upper {:e} < lower {:e} at step {t}", v(1), v(2));
					}
				}
				"PriceChannelStrategy" => {
					if !(v(0) >= v(1) - tol_p) {
						fail!("band_order", t, "upper {:e} < lower {:e} at step {t}", v(0), v(1));
					}
					let sigma = cfg.map_or(f64::NAN, |c| field_f(c, "sigma"));
					let w = period.max(1);
					if sigma == 1.0 && t + 1 >= w {
						let hi = case.stream[t + 1 - w..=t].iter().map(|x| x.candle_f64()[1]).fold(f64::MIN, f64::max);
						let lo = case.stream[t + 1 - w..=t].iter().map(|x| x.candle_f64()[2]).fold(f64::MAX, f64::min);
						if !(v(0) >= hi - tol_p && v(1) <= lo + tol_p) {
							fail!("channel_contains_window", t, "channel [{:e}, {:e}] does not contain the window's lows/highs [{lo:e}, {hi:e}]", v(1), v(0));
						}
					}
				}
				"Envelopes" if no_overshoot && !vol_src => {
					if !(v(0) >= v(1) - tol_p) {
						fail!("band_order", t, "upper {:e} < lower {:e} at step {t}", v(0), v(1));
					}
				}
				"DonchianChannel" => {
					let w = period.max(1);
					let from = (t + 1).saturating_sub(w);
					let hi = case.stream[from..=t].iter().map(|x| x.candle_f64()[1]).fold(f64::MIN, f64::max);
					let lo = case.stream[from..=t].iter().map(|x| x.candle_f64()[2]).fold(f64::MAX, f64::min);
					if !(v(2) >= hi && v(0) <= lo && v(2) >= v(1) - tol_p && v(1) >= v(0) - tol_p) {
						fail!("channel_contains_window", t, "Donchian [{:e}, {:e}, {:e}] vs window lows/highs [{lo:e}, {hi:e}]", v(0), v(1), v(2));
					}
				}
				"ParabolicSAR" => {
					let (sar, trend) = (v(0), v(1));
					if trend > 0.0 && !(sar <= cin[2] + tol_p) {
						fail!("sar_opposite_side", t, "trend up but sar {sar:e} > low {:e} at step {t}", cin[2]);
					}
					if trend < 0.0 && !(sar >= cin[1] - tol_p) {
						fail!("sar_opposite_side", t, "trend down but sar {sar:e} < high {:e} at step {t}", cin[1]);
					}
				}
				_ => {}
			}
			// finiteness wherever the formula is defined
			if o.tag == T_RESULT && !vol_src {
				let nv = o.w[0] as usize;
				let undefined_ok = match name {
					"TrendStrengthIndex" => true, // correlation of a constant window is 0/0
					"ChaikinMoneyFlow" | "EaseOfMovement" | "KlingerVolumeOscillator" | "EldersForceIndex" | "MoneyFlowIndex" => {
						// volume-normalised: zero-volume stretches
						case.stream[..=t].iter().rev().take(period.max(60)).any(|x| x.candle_f64()[4] == 0.0)
					}
					_ => false,
				};
				if !undefined_ok {
					for i in 0..nv {
						if !o.f(2 + i).is_finite() {
							fail!("finite", t, "value {i} = {:e} at step {t} on a valid candle stream", o.f(2 + i));
						}
					}
				}
			}
		}
		vs
	}
	fn shrink(&self, case: &MCase) -> Vec<MCase> {
		meng::shrink_mcase(case, 1)
	}
	fn rule(&self) -> String {
		"One evaluation = one seeded run of an indicator (valid mutated configuration) or dispersion/TSI method or of OHLCV::clv/tr over a valid candle stream; \
		 in three of four runs an exactly flat stretch longer than every window (whole candle repeated / degenerate bar / stuck prices with zero volume) is forced \
		 between volatile stretches. Monitors at every step: Aroon, RSI, MFI, Stochastic in [0,1] (non-overshooting MA kinds); CMO, CMF (non-zero window volume), TSI, \
		 TrueStrengthIndex, SMI in [-1,1]; clv in [-1,1]; Bollinger upper >= middle >= lower; Keltner, PriceChannel, Envelopes upper >= lower; Donchian (and PriceChannel \
		 with sigma = 1) contain the window's highs and lows; Parabolic SAR on the side opposite to its trend; LinearVolatility, StDev, MeanAbsDev, MedianAbsDev, TR >= 0; \
		 every indicator value finite where defined. Allowance: 64*u*(n+t) for unit-interval ratios, times the price scale for band orderings. Coverage tuple = (SUT, \
		 length class, calm | faulty)."
			.into()
	}
	fn assumptions(&self) -> Vec<String> {
		vec![
			"value-slot meaning per indicator taken from DESIGN.md Appendix B".into(),
			"range monitors of RSI/Stochastic/SMI/Envelopes apply to MA kinds that cannot overshoot; volume-based sources are exempt".into(),
		]
	}
	fn components(&self) -> serde_json::Value {
		json!({"real": ["14 range-documented indicators, all 36 indicators for finiteness, 6 methods, OHLCV::clv / tr_close"], "stub": ["fault feed with forced flat stretches", "invariant monitors"]})
	}
}
