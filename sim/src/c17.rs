//! C17 — timeseries converters keep the information they claim to keep: CollapseTimeframe (exactly-once emission,
//! aggregation, batch = streaming), HeikinAshi (validity), Renko (boundary-landing price faults, contiguity,
//! conservation of volume, iterator consistency).

use crate::common::*;
use crate::feed::{self, FaultCount, FeedCfg};
use crate::rng::Rng;
use crate::simfmt;
use crate::sut::{self, In, SOURCES};
use crate::tracked::U;
use serde::{Deserialize, Serialize};
use serde_json::json;
use yata::core::{Candle, Method, Sequence, ValueType, OHLCV};
use yata::methods::{CollapseTimeframe, HeikinAshi, Renko};

#[derive(Clone, Debug, Serialize, Deserialize)]
pub enum Case {
	Collapse { period: u64, stream: Vec<In>, ranges: Vec<(u32, u32)> },
	Heikin { stream: Vec<In> },
	Renko { size: Fx, src: u8, stream: Vec<In>, faults: Vec<(String, u64)> },
}

pub struct C17;

fn next_down(x: f64) -> f64 {
	if x > 0.0 {
		f64::from_bits(x.to_bits() - 1)
	} else {
		x
	}
}
fn next_up(x: f64) -> f64 {
	if x > 0.0 {
		f64::from_bits(x.to_bits() + 1)
	} else {
		x
	}
}

fn renko_bounds(r: &Renko) -> Option<(f64, f64, f64, f64)> {
	let t = simfmt::to_value(r).ok()?;
	Some((
		t.field("last_block_upper")?.as_f64()?,
		t.field("last_block_lower")?.as_f64()?,
		t.field("next_block_upper")?.as_f64()?,
		t.field("next_block_lower")?.as_f64()?,
	))
}

fn price_candle(r: &mut Rng, price: f64, src: u8, vol: f64) -> In {
	// a valid candle whose `source(src)` is (as closely as possible) `price`
	let p = sut::vt(price.max(f64::MIN_POSITIVE));
	match src {
		0 => In::c(p, sut::vt(p * (1.0 + 0.001 * r.unit())), sut::vt(p * (1.0 - 0.001 * r.unit())), p, vol), // close
		1 => In::c(p, sut::vt(p * 1.001), sut::vt(p * 0.999), p, vol),                                           // open
		2 => In::c(p, p, sut::vt(p * 0.99), sut::vt(p * 0.995), vol),                                            // high
		3 => In::c(p, sut::vt(p * 1.01), p, sut::vt(p * 1.005), vol),                                            // low
		_ => In::c(p, p, p, p, vol),                                                                             // hl2 / tp of a flat bar
	}
}

impl Check for C17 {
	type Case = Case;
	fn id(&self) -> &'static str {
		"C17"
	}
	fn runs(&self, tier: Tier) -> u64 {
		match tier {
			Tier::Quick => 100_000,
			Tier::Thorough => 2_000_000,
		}
	}
	fn generate(&self, root: &Rng, i: u64, tier: Tier) -> Case {
		let run = root.sub_i("run", i);
		let mut r = run.sub("config");
		let fault_free = i % 5 == 4;
		let cfg = FeedCfg::swarm(&mut run.sub("feedcfg"), 10, fault_free);
		let mut fc = FaultCount::new();
		match i % 4 {
			0 => {
				// the period is a usize, not a PeriodType: one run in eight takes it beyond 8 (and 16) bits' worth of inputs
				let large = r.below(8) == 7;
				let period = match r.below(6) {
					_ if large => [255u64, 256, 257, 300, 1440][r.usize_below(5)] + if r.chance(0.3) { r.below(700) } else { 0 },
					0 => 1,
					1 => 2,
					_ => r.range(1, 40),
				};
				let len = if large {
					period as usize * (1 + r.usize_below(3)) + r.usize_below(period as usize + 1) + 1
				} else {
					r.usize_below(if tier == Tier::Quick { 300 } else { 900 }) + 1
				};
				let stream = feed::to_in_candles(&feed::candles(&mut run.sub("feed"), len, &cfg, &mut fc));
				let ranges = (0..4)
					.map(|_| {
						let a = r.below(len as u64) as u32;
						let b = a + r.below(len as u64 - u64::from(a) + 1) as u32;
						(a, b)
					})
					.collect();
				Case::Collapse { period, stream, ranges }
			}
			1 => {
				let len = r.usize_below(400) + 1;
				Case::Heikin {
					stream: feed::to_in_candles(&feed::candles(&mut run.sub("feed"), len, &cfg, &mut fc)),
				}
			}
			_ => {
				// Renko with boundary-landing price faults read from the live state
				let size = sut::vt(match r.below(7) {
					0 => 0.01,
					1 => 0.5,
					2 => 0.999,
					3 => 1e-4,
					4 => f64::from(f32::EPSILON),
					_ => 10f64.powf(-(r.unit() * 3.5) - 0.05),
				});
				let src = [0u8, 0, 0, 1, 2, 3, 4, 5][r.usize_below(8)];
				let len = r.usize_below(if tier == Tier::Quick { 200 } else { 500 }) + 2;
				let base = feed::candles(&mut run.sub("feed"), len, &cfg, &mut fc);
				let mut stream: Vec<In> = vec![In::c(base[0][0], base[0][1], base[0][2], base[0][3], base[0][4])];
				let mut faults: std::collections::BTreeMap<String, u64> = std::collections::BTreeMap::new();
				let first = stream[0].candle();
				let live = guarded(|| Renko::new((size as ValueType, SOURCES[src as usize]), &first as &dyn OHLCV));
				if let Ok(Ok(mut live)) = live {
					for c in base.iter().skip(1) {
						let vol = c[4];
						let mut x = In::c(c[0], c[1], c[2], c[3], c[4]);
						if !fault_free && r.chance(0.35) {
							if let Some((lu, ll, nu, nl)) = renko_bounds(&live) {
								let (name, price) = match r.below(12) {
									0 => ("on_upper_boundary", nu),
									1 => ("ulp_below_upper", next_down(nu)),
									2 => ("ulp_above_upper", next_up(nu)),
									3 => ("on_lower_boundary", nl),
									4 => ("ulp_above_lower", next_up(nl)),
									5 => ("ulp_below_lower", next_down(nl)),
									6 => {
										let k = r.range(2, 6) as f64;
										("k_bricks_up_exact", lu * (1.0 + size * k))
									}
									7 => {
										let k = r.range(2, 6) as f64;
										("k_bricks_down_exact", ll * (1.0 - size * k))
									}
									8 => ("multi_brick_jump_up", nu * (1.0 + size * (1.0 + r.unit() * 8.0))),
									9 => ("multi_brick_jump_down", nl * (1.0 - (size * (1.0 + r.unit() * 4.0)).min(0.9))),
									10 => ("inside_block", (lu + ll) / 2.0),
									_ => ("reversal_to_other_bound", if r.chance(0.5) { nl } else { nu }),
								};
								if price.is_finite() && price > 0.0 {
									x = price_candle(&mut r, price, src, vol);
									*faults.entry(format!("feed:renko_{name}")).or_insert(0) += 1;
								}
							}
						}
						let cx = x.candle();
						if guarded(|| live.next(&cx as &dyn OHLCV)).is_err() {
							stream.push(x);
							break;
						}
						stream.push(x);
					}
				}
				Case::Renko {
					size: Fx(size),
					src,
					stream,
					faults: faults.into_iter().collect(),
				}
			}
		}
	}
	fn execute(&self, case: &Case, stats: &mut Stats) -> Vec<Violation> {
		let mut vs = Vec::new();
		match case {
			Case::Collapse { period, stream, ranges } => {
				stats.suts.insert("CollapseTimeframe".into());
				let p = *period as usize;
				let cs: Vec<Candle> = stream.iter().map(In::candle).collect();
				let agg = |w: &[Candle]| -> [ValueType; 5] {
					let mut v: ValueType = 0.0;
					for (j, c) in w.iter().enumerate() {
						v = if j == 0 { c.volume } else { v + c.volume };
					}
					[
						w[0].open,
						w.iter().fold(ValueType::NEG_INFINITY, |m, c| m.max(c.high)),
						w.iter().fold(ValueType::INFINITY, |m, c| m.min(c.low)),
						w[w.len() - 1].close,
						v,
					]
				};
				let same = |c: &Candle, a: &[ValueType; 5]| c.open == a[0] && c.high == a[1] && c.low == a[2] && c.close == a[3] && (c.volume - a[4]).abs() <= 8.0 * ValueType::EPSILON * a[4].abs();
				let stream_run = |xs: &[Candle]| -> Result<Vec<Option<Candle>>, String> {
					guarded(|| {
						let mut m = CollapseTimeframe::<Candle>::new(p, &xs[0]).map_err(|e| format!("{e:?}"))?;
						Ok::<_, String>(xs.iter().map(|c| m.next(c)).collect::<Vec<_>>())
					})
					.and_then(|r| r)
				};
				stats.cover(format!("collapse|period={}|len%p={}", if p >= 255 { ">=255".into() } else if p > 4 { ">4".into() } else { p.to_string() }, (cs.len() % p).min(2)));
				match stream_run(&cs) {
					Ok(outs) => {
						stats.ticks += outs.len() as u64;
						let mut emitted = 0usize;
						for (t, o) in outs.iter().enumerate() {
							let due = (t + 1) % p == 0;
							match (o, due) {
								(Some(c), true) => {
									emitted += 1;
									let a = agg(&cs[t + 1 - p..=t]);
									if !same(c, &a) {
										vs.push(Violation::new("C17", "CollapseTimeframe", "aggregation", t, format!("candle emitted at input {t} = {c:?}, the collapsed inputs give (o,h,l,c,v) = {a:?}")).tag("period", p));
										break;
									}
								}
								(None, false) => {}
								(Some(_), false) => {
									vs.push(Violation::new("C17", "CollapseTimeframe", "exactly_once_emission", t, format!("a candle was emitted at input {t}, period {p}")).tag("period", p));
									break;
								}
								(None, true) => {
									vs.push(Violation::new("C17", "CollapseTimeframe", "exactly_once_emission", t, format!("no candle emitted at input {t} (every {p}-th input is due)")).tag("period", p));
									break;
								}
							}
						}
						stats.log(emitted as u64);
						// batch vs streaming on the whole stream and on seeded sub-ranges
						let mut all = vec![(0u32, cs.len() as u32)];
						all.extend(ranges.iter().copied());
						for (a, b) in all {
							let sl = &cs[a as usize..(b as usize).min(cs.len())];
							if sl.is_empty() {
								continue;
							}
							stats.fault("delivery:batch_collapse");
							stats.ops += 1;
							let batch = guarded(|| sl.collapse_timeframe(p, false));
							let st = stream_run(sl).map(|o| o.into_iter().flatten().collect::<Vec<Candle>>());
							match (batch, st) {
								(Ok(bv), Ok(sv)) => {
									if bv.len() != sv.len() || bv.iter().zip(&sv).any(|(x, y)| x != y) {
										vs.push(Violation::new("C17", "CollapseTimeframe", "batch_equals_streaming", a as usize, format!("collapse_timeframe({p}, false) on inputs [{a}..{b}) gives {} candles, streaming gives {}; first difference: {:?}", bv.len(), sv.len(), bv.iter().zip(&sv).find(|(x, y)| x != y))).tag("period", p));
									}
								}
								(Err(m), _) | (_, Err(m)) => vs.push(Violation::new("C17", "CollapseTimeframe", "panic", a as usize, format!("panicked on inputs [{a}..{b}): {m}")).tag("period", p)),
							}
							// continuous = true against the sliding definition
							if sl.len() >= p && sl.len() <= 200 {
								if let Ok(cv) = guarded(|| sl.collapse_timeframe(p, true)) {
									let bad = cv.len() != sl.len() - p + 1 || cv.iter().enumerate().any(|(j, c)| !same(c, &agg(&sl[j..j + p])));
									if bad {
										vs.push(Violation::new("C17", "CollapseTimeframe", "continuous_collapse", a as usize, format!("collapse_timeframe({p}, true) on inputs [{a}..{b}) does not equal the sliding aggregation")).tag("period", p));
									}
								}
							}
						}
					}
					Err(m) => vs.push(Violation::new("C17", "CollapseTimeframe", "panic", 0, format!("{m}")).tag("period", p)),
				}
			}
			Case::Heikin { stream } => {
				stats.suts.insert("HeikinAshi".into());
				stats.cover(format!("heikin|len={}", stream.len().min(3)));
				let cs: Vec<Candle> = stream.iter().map(In::candle).collect();
				let r = guarded(|| {
					let mut m = HeikinAshi::new((), &cs[0] as &dyn OHLCV).unwrap();
					cs.iter().map(|c| m.next(c as &dyn OHLCV)).collect::<Vec<Candle>>()
				});
				match r {
					Ok(outs) => {
						stats.ticks += outs.len() as u64;
						stats.nontrivial = true;
						for (t, (i, o)) in cs.iter().zip(&outs).enumerate() {
							if OHLCV::validate(i) && !OHLCV::validate(o) {
								vs.push(Violation::new("C17", "HeikinAshi", "valid_in_valid_out", t, format!("input {i:?} is valid, output {o:?} is not")));
								break;
							}
							if !(o.low <= o.open && o.open <= o.high && o.low <= o.close && o.close <= o.high) && OHLCV::validate(i) {
								vs.push(Violation::new("C17", "HeikinAshi", "valid_in_valid_out", t, format!("output {o:?}: open/close outside [low, high]")));
								break;
							}
						}
					}
					Err(m) => vs.push(Violation::new("C17", "HeikinAshi", "panic", 0, m)),
				}
			}
			Case::Renko { size, src, stream, faults } => {
				stats.suts.insert("Renko".into());
				for (k, v) in faults {
					stats.fault_n(k, *v);
				}
				let sz = size.0;
				let first = stream[0].candle();
				let made = guarded(|| Renko::new((sz as ValueType, SOURCES[*src as usize]), &first as &dyn OHLCV));
				let mut m = match made {
					Ok(Ok(m)) => m,
					Ok(Err(_)) => return vs,
					Err(p) => {
						vs.push(Violation::new("C17", "Renko", "panic", 0, format!("constructor panicked: {p}")));
						return vs;
					}
				};
				let sc = if sz < 1e-3 { "tiny" } else if sz > 0.5 { "large" } else { "mid" };
				let mut pending_volume = 0.0f64;
				// independent model of the block the converter stands on: the last emitted brick (initially the block
				// of one brick size centred on the first price); the serialized state must agree with it
				let v0 = OHLCV::source(&first, SOURCES[*src as usize]) as f64;
				let (mut ref_lu, mut ref_ll) = (v0 + v0 * sz * 0.5, v0 - v0 * sz * 0.5);
				// block edges are computed as base * (1 +- size * k): their rounding lives at the scale of the base the last
				// emission started from (a 99.9% fall leaves edges that are small differences of large numbers)
				let mut edge_scale = ref_lu.abs();
				for (t, x) in stream.iter().enumerate().skip(1) {
					let c = x.candle();
					let Some((lu, ll, nu, nl)) = renko_bounds(&m) else { break };
					let btol = 64.0 * U * ref_lu.abs().max(ref_ll.abs()).max(edge_scale);
					if (lu - ref_lu).abs() > btol || (ll - ref_ll).abs() > btol || (nu - ref_lu * (1.0 + sz)).abs() > 4.0 * btol || (nl - ref_ll * (1.0 - sz)).abs() > 4.0 * btol {
						vs.push(
							Violation::new("C17", "Renko", "block_state_consistent_with_emitted_bricks", t, format!("before input {t}: the converter stands on block [{ll:e}, {lu:e}] with next boundaries [{nl:e}, {nu:e}], but the last emitted brick is [{ref_ll:e}, {ref_lu:e}] (brick size {sz:e})"))
								.tag("size", sz),
						);
						return vs;
					}
					let price = OHLCV::source(&c, SOURCES[*src as usize]) as f64;
					pending_volume += c.volume as f64;
					stats.ticks += 1;
					let out = match guarded(|| m.next(&c as &dyn OHLCV)) {
						Ok(o) => o,
						Err(p) => {
							vs.push(
								Violation::new("C17", "Renko", "panic", t, format!("next() panicked at input {t} (price {price:e}, next boundaries [{nl:e}, {nu:e}], brick size {sz:e}): {p}"))
									.tag("size", sz),
							);
							return vs;
						}
					};
					let up = price >= nu;
					let down = !up && price <= nl;
					let reported = ExactSizeIterator::len(&out);
					if reported > 20_000 {
						// a spike with a tiny brick size: millions of bricks; check the emission rule only
						stats.probe("huge_brick_count_iteration_skipped");
						if !(up || down) {
							vs.push(Violation::new("C17", "Renko", "emits_iff_boundary_reached", t, format!("price {price:e}, next boundaries [{nl:e}, {nu:e}]: {reported} bricks emitted")).tag("size", sz));
							return vs;
						}
						pending_volume = 0.0;
						if let Some(lb) = out.clone().last() {
							edge_scale = ref_lu.abs().max(ref_ll.abs());
							ref_lu = (lb.open as f64).max(lb.close as f64);
							ref_ll = (lb.open as f64).min(lb.close as f64);
						}
						continue;
					}
					let blocks: Vec<yata::methods::renko::RenkoBlock> = out.clone().collect();
					let n = blocks.len();
					stats.cover(format!("renko|{sc}|src{src}|{}|bricks={}", if up { "up" } else if down { "down" } else { "none" }, n.min(3)));
					if (up || down) != (n > 0) {
						vs.push(
							Violation::new("C17", "Renko", "emits_iff_boundary_reached", t, format!("price {price:e}, next boundaries [{nl:e}, {nu:e}]: {n} bricks emitted"))
								.tag("size", sz),
						);
						return vs;
					}
					// iterator consistency
					let it = out.clone();
					let (sh, len, cnt, last) = (it.size_hint(), ExactSizeIterator::len(&it), it.clone().count(), it.clone().last());
					if sh != (n, Some(n)) || len != n || cnt != n || last != blocks.last().copied() {
						vs.push(Violation::new("C17", "Renko", "iterator_consistency", t, format!("iteration yields {n} bricks; size_hint {sh:?}, len {len}, count {cnt}, last {last:?} vs {:?}", blocks.last())));
						return vs;
					}
					if n > 1 {
						let mut it2 = out.clone();
						it2.next();
						if ExactSizeIterator::len(&it2) != n - 1 || it2.clone().count() != n - 1 || it2.clone().last() != blocks.last().copied() {
							vs.push(Violation::new("C17", "Renko", "iterator_consistency", t, "partially consumed brick iterator reports inconsistent len/count/last".into()));
							return vs;
						}
					}
					if n == 0 {
						continue;
					}
					stats.nontrivial = true;
					let base = if up { lu } else { ll };
					let dir: f64 = if up { 1.0 } else { -1.0 };
					let tol = 8.0 * U * base.abs();
					if (blocks[0].open as f64 - base).abs() > tol {
						vs.push(Violation::new("C17", "Renko", "bricks_contiguous", t, format!("first brick opens at {:e}, the previous block edge is {base:e}", blocks[0].open)).tag("size", sz));
						return vs;
					}
					let mut vol_sum = 0.0f64;
					for (j, b) in blocks.iter().enumerate() {
						let (o, cl) = (b.open as f64, b.close as f64);
						if j + 1 < n && (blocks[j + 1].open as f64 - cl).abs() > tol {
							vs.push(Violation::new("C17", "Renko", "bricks_contiguous", t, format!("brick {j} closes at {cl:e}, brick {} opens at {:e}", j + 1, blocks[j + 1].open)).tag("size", sz));
							return vs;
						}
						let step = cl - o;
						if step * dir <= 0.0 {
							vs.push(Violation::new("C17", "Renko", "one_direction_per_step", t, format!("brick {j} goes from {o:e} to {cl:e} while the price moved {}", if up { "up" } else { "down" })).tag("size", sz));
							return vs;
						}
						// equally sized relative to the base: |close - open| = size * base
						let want = sz * base;
						if (step.abs() - want).abs() > 16.0 * U * base.abs() * (1.0 + n as f64) {
							vs.push(Violation::new("C17", "Renko", "equal_brick_size", t, format!("brick {j} spans {:e}, brick size * base = {want:e}", step.abs())).tag("size", sz));
							return vs;
						}
						vol_sum += b.volume as f64;
					}
					let vtol = 16.0 * U * pending_volume.abs() * (n as f64 + 4.0) * (t as f64).max(1.0).min(64.0);
					if (vol_sum - pending_volume).abs() > vtol {
						vs.push(
							Violation::new("C17", "Renko", "volume_conservation", t, format!("{n} bricks carry {vol_sum:e} in total; volume consumed since the previous emission is {pending_volume:e}"))
								.tag("size", sz),
						);
						return vs;
					}
					// OHLCV view spans the bricks
					let (vo, vc, vv) = (OHLCV::open(&out) as f64, OHLCV::close(&out) as f64, OHLCV::volume(&out) as f64);
					// The property speaks about the bricks, not about the aggregated OHLCV view of RenkoOutput: an inconsistent
					// view is counted as an observation (DESIGN.md, Corrections), not reported as a violation of C17.
					if (vo - blocks[0].open as f64).abs() > tol || (vv - vol_sum).abs() > vtol {
						stats.probe("observation:ohlcv_view_open_or_volume_inconsistent");
					}
					if (vc - blocks[n - 1].close as f64).abs() > tol * (n as f64 + 1.0) {
						stats.probe("observation:ohlcv_view_close_is_base_plus_size_times_len (absolute, bricks are relative)");
					}
					pending_volume = 0.0;
					edge_scale = ref_lu.abs().max(ref_ll.abs());
					ref_lu = (blocks[n - 1].open as f64).max(blocks[n - 1].close as f64);
					ref_ll = (blocks[n - 1].open as f64).min(blocks[n - 1].close as f64);
					stats.log(n as u64);
				}
			}
		}
		vs
	}
	fn shrink(&self, case: &Case) -> Vec<Case> {
		let mut v = Vec::new();
		match case {
			Case::Collapse { period, stream, ranges } => {
				if !ranges.is_empty() {
					v.push(Case::Collapse { period: *period, stream: stream.clone(), ranges: vec![] });
				}
				let n = stream.len();
				for keep in [n / 2, n - 1] {
					if keep >= 1 && keep < n {
						v.push(Case::Collapse { period: *period, stream: stream[..keep].to_vec(), ranges: vec![] });
					}
				}
				if *period > 1 {
					v.push(Case::Collapse { period: period / 2, stream: stream.clone(), ranges: ranges.clone() });
				}
			}
			Case::Heikin { stream } => {
				let n = stream.len();
				for keep in [n / 2, n - 1] {
					if keep >= 1 && keep < n {
						v.push(Case::Heikin { stream: stream[..keep].to_vec() });
					}
				}
				if n > 1 {
					v.push(Case::Heikin { stream: stream[1..].to_vec() });
				}
			}
			Case::Renko { size, src, stream, faults } => {
				let n = stream.len();
				for keep in [n / 2, n * 3 / 4, n - 1] {
					if keep >= 2 && keep < n {
						v.push(Case::Renko { size: *size, src: *src, stream: stream[..keep].to_vec(), faults: faults.clone() });
					}
				}
				if n > 2 {
					for i in (1..n - 1).rev().take(40) {
						let mut s = stream.clone();
						s.remove(i);
						v.push(Case::Renko { size: *size, src: *src, stream: s, faults: faults.clone() });
					}
				}
			}
		}
		v
	}
	fn rule(&self) -> String {
		"One evaluation = one seeded converter run. CollapseTimeframe: period >= 1, streaming next() must emit exactly on every period-th input (counted), the candle = first \
		 open / max high / min low / last close / summed volume; equal to Sequence::collapse_timeframe(size, false) on the whole stream and on seeded sub-ranges, \
		 continuous = true against the sliding aggregation. HeikinAshi: valid input => valid output. Renko: brick size in [eps, 1) incl. tiny and near 1, every price \
		 source; the feed injects prices exactly on / one ulp below / one ulp above the next brick boundary (read from the live serialized state), k bricks away, \
		 multi-brick jumps and reversals; oracle per step: no panic, >= 1 brick iff the boundary was reached, bricks contiguous from the previous block edge, one direction, \
		 equal size relative to the base, total brick volume = volume consumed since the previous emission, iterator len/size_hint/count/last and the OHLCV view consistent. \
		 Coverage tuple = (converter, size/period class, source, direction, brick-count class); non-trivial = runs with an injected boundary fault or an emission."
			.into()
	}
	fn assumptions(&self) -> Vec<String> {
		vec!["Renko's next boundaries are read from its serialized state (no hook needed)".into()]
	}
	fn components(&self) -> serde_json::Value {
		json!({"real": ["CollapseTimeframe<Candle>", "Sequence::collapse_timeframe", "HeikinAshi", "Renko + RenkoOutput iterator and OHLCV view"],
			"stub": ["feed generator with boundary-landing price faults", "aggregation / brick reference"]})
	}
}
