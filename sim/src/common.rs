//! Driver shared by all checks: seeded run distribution over threads, violation reports with replay files,
//! in-process minimisation, known-findings lookup, evidence files.

use crate::rng::Rng;
use serde::de::DeserializeOwned;
use serde::{Deserialize, Serialize};
use serde_json::{json, Value as J};
use std::collections::{BTreeMap, BTreeSet};
use std::panic::{catch_unwind, AssertUnwindSafe};
use std::sync::atomic::{AtomicU64, Ordering};
use std::sync::Mutex;
use std::time::Instant;

pub const DEFAULT_SEED: u64 = 20_260_926;

#[derive(Clone, Copy, Debug, PartialEq, Eq)]
pub enum Tier {
	Quick,
	Thorough,
}

impl Tier {
	pub fn name(self) -> &'static str {
		match self {
			Tier::Quick => "quick",
			Tier::Thorough => "thorough",
		}
	}
}

/// f64 that survives JSON: finite values as numbers, everything else (and -0.0) as a bit-pattern string
#[derive(Clone, Copy, Debug, PartialEq)]
pub struct Fx(pub f64);

impl Serialize for Fx {
	fn serialize<S: serde::Serializer>(&self, s: S) -> Result<S::Ok, S::Error> {
		if self.0.is_finite() && !(self.0 == 0.0 && self.0.is_sign_negative()) {
			s.serialize_f64(self.0)
		} else {
			s.serialize_str(&format!("bits:{:016x}", self.0.to_bits()))
		}
	}
}
impl<'de> Deserialize<'de> for Fx {
	fn deserialize<D: serde::Deserializer<'de>>(d: D) -> Result<Self, D::Error> {
		let j = J::deserialize(d)?;
		match &j {
			J::Number(n) => Ok(Fx(n.as_f64().ok_or_else(|| serde::de::Error::custom("bad number"))?)),
			J::String(s) => {
				let h = s
					.strip_prefix("bits:")
					.ok_or_else(|| serde::de::Error::custom("bad float string"))?;
				let b = u64::from_str_radix(h, 16).map_err(serde::de::Error::custom)?;
				Ok(Fx(f64::from_bits(b)))
			}
			_ => Err(serde::de::Error::custom("bad float")),
		}
	}
}

#[derive(Clone, Debug)]
pub struct Violation {
	pub property: String,
	pub sut: String,
	/// class of the violated predicate (stable name; minimisation keeps it)
	pub predicate: String,
	pub step: usize,
	pub detail: String,
	/// attributes a known-finding entry may constrain
	pub tags: BTreeMap<String, String>,
}

impl Violation {
	pub fn new(property: &str, sut: &str, predicate: &str, step: usize, detail: String) -> Self {
		Self {
			property: property.into(),
			sut: sut.into(),
			predicate: predicate.into(),
			step,
			detail,
			tags: BTreeMap::new(),
		}
	}
	pub fn tag(mut self, k: &str, v: impl ToString) -> Self {
		self.tags.insert(k.into(), v.to_string());
		self
	}
	pub fn class(&self) -> (String, String, String) {
		(self.property.clone(), self.sut.clone(), self.predicate.clone())
	}
}

/// counters a run maintains; merged in run-index order
#[derive(Clone, Debug, Default)]
pub struct Stats {
	pub ticks: u64,
	pub ops: u64,
	pub faults: BTreeMap<String, u64>,
	pub probes: BTreeMap<String, u64>,
	pub coverage: BTreeSet<String>,
	pub suts: BTreeSet<String>,
	pub nontrivial: bool,
	pub exempt: u64,
	pub checked: u64,
	pub log_hash: u64,
	/// per-key maxima (calibration of the drift constants: worst observed |y-v| / unit)
	pub maxima: BTreeMap<String, f64>,
}

impl Stats {
	pub fn maximum(&mut self, k: &str, x: f64) {
		let e = self.maxima.entry(k.into()).or_insert(0.0);
		if x > *e {
			*e = x;
		}
	}
	pub fn fault(&mut self, k: &str) {
		*self.faults.entry(k.into()).or_insert(0) += 1;
		self.nontrivial = true;
	}
	pub fn fault_n(&mut self, k: &str, n: u64) {
		if n > 0 {
			*self.faults.entry(k.into()).or_insert(0) += n;
			self.nontrivial = true;
		}
	}
	pub fn probe(&mut self, k: &str) {
		*self.probes.entry(k.into()).or_insert(0) += 1;
	}
	pub fn probe_n(&mut self, k: &str, n: u64) {
		*self.probes.entry(k.into()).or_insert(0) += n;
	}
	pub fn declare_probe(&mut self, k: &str) {
		self.probes.entry(k.into()).or_insert(0);
	}
	pub fn cover(&mut self, k: String) {
		self.coverage.insert(k);
	}
	/// fold a value into the event-log hash (determinism self check)
	#[inline]
	pub fn log(&mut self, x: u64) {
		self.log_hash = (self.log_hash ^ x).wrapping_mul(0x0000_0100_0000_01b3).rotate_left(5);
	}
	pub fn log_str(&mut self, s: &str) {
		self.log(crate::rng::fnv(s));
	}
	fn merge(&mut self, o: &Stats) {
		self.ticks += o.ticks;
		self.ops += o.ops;
		self.exempt += o.exempt;
		self.checked += o.checked;
		for (k, v) in &o.faults {
			*self.faults.entry(k.clone()).or_insert(0) += v;
		}
		for (k, v) in &o.probes {
			*self.probes.entry(k.clone()).or_insert(0) += v;
		}
		self.suts.extend(o.suts.iter().cloned());
		for (k, v) in &o.maxima {
			let e = self.maxima.entry(k.clone()).or_insert(0.0);
			if *v > *e {
				*e = *v;
			}
		}
		self.log_hash = (self.log_hash ^ o.log_hash).wrapping_mul(0x0000_0100_0000_01b3).rotate_left(7);
	}
}

pub trait Check: Sync {
	type Case: Serialize + DeserializeOwned + Clone + Send;

	fn id(&self) -> &'static str;
	fn level(&self) -> &'static str {
		"exploration"
	}
	fn runs(&self, tier: Tier) -> u64;
	/// draw the explicit case of run `i` (pure function of rng key and i)
	fn generate(&self, rng: &Rng, i: u64, tier: Tier) -> Self::Case;
	/// execute an explicit case; must not use any randomness
	fn execute(&self, case: &Self::Case, stats: &mut Stats) -> Vec<Violation>;
	/// smaller variants of a failing case (tried in order; first that still fails in the same class is taken)
	fn shrink(&self, _case: &Self::Case) -> Vec<Self::Case> {
		Vec::new()
	}
	fn rule(&self) -> String;
	fn assumptions(&self) -> Vec<String> {
		Vec::new()
	}
	fn components(&self) -> J {
		json!({})
	}
	/// extra work after the seeded runs (e.g. build matrix); may add violations as (violation, replay json)
	fn epilogue(&self, _tier: Tier, _seed: u64, _stats: &mut Stats) -> Vec<(Violation, J)> {
		Vec::new()
	}
	fn sample_limit(&self) -> usize {
		3
	}
}

pub fn verif_dir() -> std::path::PathBuf {
	if let Ok(d) = std::env::var("VERIF_DIR") {
		return d.into();
	}
	// the binary lives in /verif/target/<set>/release/; fall back to cwd
	std::env::current_dir().unwrap_or_else(|_| "/verif".into())
}

pub fn seed_from_env() -> u64 {
	match std::env::var("VERIF_SEED") {
		Ok(s) => s.trim().parse::<u64>().unwrap_or_else(|_| crate::rng::fnv(&s)),
		Err(_) => DEFAULT_SEED,
	}
}

pub fn threads() -> usize {
	std::env::var("VERIF_THREADS")
		.ok()
		.and_then(|s| s.parse().ok())
		.unwrap_or_else(|| std::thread::available_parallelism().map_or(4, |n| n.get()))
		.max(1)
}

pub fn feature_set() -> String {
	let mut v = Vec::new();
	if cfg!(feature = "period_type_u16") {
		v.push("period_type_u16");
	}
	if cfg!(feature = "period_type_u32") {
		v.push("period_type_u32");
	}
	if cfg!(feature = "period_type_u64") {
		v.push("period_type_u64");
	}
	if cfg!(feature = "value_type_f32") {
		v.push("value_type_f32");
	}
	if cfg!(feature = "unsafe_performance") {
		v.push("unsafe_performance");
	}
	if v.is_empty() {
		"default".into()
	} else {
		v.join("+")
	}
}

pub fn profile_name() -> &'static str {
	if cfg!(debug_assertions) {
		"strict (optimised, debug-assertions + overflow-checks on)"
	} else {
		"plain release"
	}
}

// ------------------------------------------------------------------------------------------------
// known findings

#[derive(Clone, Debug, Deserialize)]
pub struct Finding {
	pub property: String,
	pub id: String,
	pub sut: Option<String>,
	pub predicate: Option<String>,
	/// every listed tag must be present on the violation and equal to (one of) the listed value(s);
	/// a value `"*"` only requires presence
	#[serde(default, rename = "where")]
	pub cond: BTreeMap<String, J>,
	pub what: String,
	/// replay file (relative to /verif) that is re-executed on every run of the property's check
	#[serde(default)]
	pub witness: Option<String>,
}

#[derive(Clone, Debug, Deserialize, Default)]
pub struct FindingsFile {
	#[serde(default)]
	pub findings: Vec<Finding>,
	#[serde(default)]
	pub fixed: Vec<String>,
}

pub fn load_findings() -> FindingsFile {
	let p = verif_dir().join("known_findings.json");
	match std::fs::read_to_string(&p) {
		Ok(s) => match serde_json::from_str(&s) {
			Ok(f) => f,
			Err(e) => {
				eprintln!("harness error: cannot parse {}: {e}", p.display());
				std::process::exit(2);
			}
		},
		Err(_) => FindingsFile::default(),
	}
}

impl Finding {
	pub fn matches(&self, v: &Violation) -> bool {
		if self.property != v.property {
			return false;
		}
		if let Some(s) = &self.sut {
			if !s.split('|').any(|x| x == v.sut) {
				return false;
			}
		}
		if let Some(p) = &self.predicate {
			if !p.split('|').any(|x| x == v.predicate) {
				return false;
			}
		}
		for (k, want) in &self.cond {
			let Some(have) = v.tags.get(k) else { return false };
			let ok = match want {
				J::String(s) => s == "*" || s == have,
				J::Array(a) => a.iter().any(|x| match x {
					J::String(s) => s == have,
					other => &other.to_string() == have,
				}),
				other => &other.to_string() == have,
			};
			if !ok {
				return false;
			}
		}
		true
	}
}

// ------------------------------------------------------------------------------------------------
// driver

pub struct Outcome {
	pub exit: i32,
}

fn exec_guarded<C: Check>(chk: &C, case: &C::Case, stats: &mut Stats) -> Vec<Violation> {
	match catch_unwind(AssertUnwindSafe(|| chk.execute(case, stats))) {
		Ok(v) => v,
		Err(p) => {
			let msg = panic_msg(&p);
			eprintln!("harness error: the simulator itself panicked outside a guarded SUT call: {msg}");
			eprintln!(
				"case: {}",
				serde_json::to_string(case).unwrap_or_else(|_| "<unserialisable>".into())
			);
			std::process::exit(2);
		}
	}
}

pub fn panic_msg(p: &Box<dyn std::any::Any + Send>) -> String {
	if let Some(s) = p.downcast_ref::<&str>() {
		(*s).to_string()
	} else if let Some(s) = p.downcast_ref::<String>() {
		s.clone()
	} else {
		"<non-string panic payload>".into()
	}
}

/// run a SUT call under catch_unwind; `Err(msg)` when it panicked
pub fn guarded<R>(f: impl FnOnce() -> R) -> Result<R, String> {
	GUARD_DEPTH.with(|g| g.set(g.get() + 1));
	let r = catch_unwind(AssertUnwindSafe(f)).map_err(|p| panic_msg(&p));
	GUARD_DEPTH.with(|g| g.set(g.get() - 1));
	r
}

thread_local! {
	static GUARD_DEPTH: std::cell::Cell<u32> = const { std::cell::Cell::new(0) };
}

fn minimise<C: Check>(chk: &C, case: &C::Case, class: &(String, String, String)) -> (C::Case, usize) {
	let mut best = case.clone();
	let mut rounds = 0usize;
	let deadline = Instant::now() + std::time::Duration::from_secs(20);
	'outer: loop {
		if rounds > 400 || Instant::now() > deadline {
			break;
		}
		for cand in chk.shrink(&best) {
			let mut st = Stats::default();
			let vs = exec_guarded(chk, &cand, &mut st);
			if vs.iter().any(|v| &v.class() == class) {
				best = cand;
				rounds += 1;
				continue 'outer;
			}
			if Instant::now() > deadline {
				break 'outer;
			}
		}
		break;
	}
	(best, rounds)
}

pub fn silence_panics() {
	// SUT panics are caught and classified by the checks; keep stderr readable
	std::panic::set_hook(Box::new(|info| {
		if GUARD_DEPTH.with(|g| g.get()) == 0 {
			eprintln!("harness panic (outside a guarded SUT call): {info}");
		}
	}));
}

pub fn run_check<C: Check>(chk: &C, tier: Tier) -> Outcome {
	let seed = seed_from_env();
	let id = chk.id();
	println!(
		"check={id} tier={} VERIF_SEED={seed} features={} profile=\"{}\" threads={}",
		tier.name(),
		feature_set(),
		profile_name(),
		threads()
	);
	silence_panics();
	let t0 = Instant::now();
	let root = Rng::new(crate::rng::mix(seed, crate::rng::fnv(id)));
	// VERIF_RUNS_DIV: used by C20 for the definitional engines it re-runs inside the wide / f32 builds
	let div = std::env::var("VERIF_RUNS_DIV").ok().and_then(|s| s.parse::<u64>().ok()).unwrap_or(1).max(1);
	let n = (chk.runs(tier) / div).max(1);
	let next = AtomicU64::new(0);
	type Slot<Case> = (u64, Stats, Vec<Violation>, Option<Case>);
	let results: Mutex<Vec<Slot<C::Case>>> = Mutex::new(Vec::new());
	let nthreads = threads().min(n.max(1) as usize);
	std::thread::scope(|s| {
		for _ in 0..nthreads {
			s.spawn(|| {
				let mut local: Vec<Slot<C::Case>> = Vec::new();
				loop {
					let i = next.fetch_add(1, Ordering::Relaxed);
					if i >= n {
						break;
					}
					let case = chk.generate(&root, i, tier);
					let mut st = Stats::default();
					let vs = exec_guarded(chk, &case, &mut st);
					let keep = !vs.is_empty() || i < chk.sample_limit() as u64;
					local.push((i, st, vs, if keep { Some(case) } else { None }));
				}
				results.lock().unwrap().extend(local);
			});
		}
	});
	let mut results = results.into_inner().unwrap();
	results.sort_by_key(|r| r.0);

	let mut total = Stats::default();
	let mut nontrivial_cov: BTreeSet<String> = BTreeSet::new();
	let mut all_cov: BTreeSet<String> = BTreeSet::new();
	let mut samples: Vec<J> = Vec::new();
	let mut failing: Vec<(u64, Violation, C::Case)> = Vec::new();
	for (i, st, vs, case) in &results {
		total.merge(st);
		all_cov.extend(st.coverage.iter().cloned());
		if st.nontrivial && st.ticks + st.ops > 0 {
			nontrivial_cov.extend(st.coverage.iter().cloned());
		}
		if samples.len() < chk.sample_limit() {
			if let Some(c) = case {
				samples.push(truncate_json(serde_json::to_value(c).unwrap_or(J::Null), 40));
			}
		}
		for v in vs {
			failing.push((*i, v.clone(), case.clone().expect("failing case kept")));
		}
	}

	// epilogue (build matrix etc.)
	let extra = chk.epilogue(tier, seed, &mut total);

	// triage against known findings; one report per class
	let kf = load_findings();
	let mut seen_class: BTreeSet<(String, String, String, String)> = BTreeSet::new();
	let mut known_seen: BTreeMap<String, (String, u64)> = BTreeMap::new();
	let mut new_violations = 0u64;
	let dir = verif_dir();
	let _ = std::fs::create_dir_all(dir.join("replays"));
	// replay the witness of every listed finding of this property: the KNOWN-FINDING line does not depend on the
	// seeded runs happening to reach it, and a finding that no longer reproduces is reported as such
	for f in kf.findings.iter().filter(|f| f.property == id) {
		let Some(w) = &f.witness else { continue };
		let reproduced = std::fs::read_to_string(dir.join(w))
			.ok()
			.and_then(|t| serde_json::from_str::<J>(&t).ok())
			.and_then(|doc| {
				let cj = if doc["case"]["minimised"].is_null() { doc["case"].clone() } else { doc["case"]["minimised"].clone() };
				serde_json::from_value::<C::Case>(cj).ok()
			})
			.map(|case| {
				let mut st = Stats::default();
				exec_guarded(chk, &case, &mut st).iter().any(|v| f.matches(v))
			});
		match reproduced {
			Some(true) => {
				let e = known_seen.entry(f.id.clone()).or_insert((f.what.clone(), 0));
				e.1 += 1;
			}
			Some(false) => println!("note: known finding {} no longer reproduces from its witness {w}", f.id),
			None => {
				eprintln!("harness error: witness {w} of known finding {} cannot be read as a case of check {id}", f.id);
				std::process::exit(2);
			}
		}
	}
	let mut report = |run: u64, v: &Violation, replay: J, minimised_rounds: usize| -> bool {
		if let Some(f) = kf.findings.iter().find(|f| f.matches(v)) {
			let e = known_seen.entry(f.id.clone()).or_insert((f.what.clone(), 0));
			e.1 += 1;
			return false;
		}
		let tagsig = v.tags.get("class").cloned().unwrap_or_default();
		if !seen_class.insert((v.property.clone(), v.sut.clone(), v.predicate.clone(), tagsig)) {
			return true; // same class already reported in this batch
		}
		let name = format!("{}-{}-{}-{}.json", v.property, seed, run, seen_class.len());
		let path = dir.join("replays").join(&name);
		let doc = json!({
			"check": id, "property": v.property, "seed": seed, "run": run, "features": feature_set(),
			"profile": profile_name(), "sut": v.sut, "predicate": v.predicate, "step": v.step,
			"detail": v.detail, "tags": v.tags, "minimise_rounds": minimised_rounds, "case": replay,
		});
		if let Err(e) = std::fs::write(&path, serde_json::to_string_pretty(&doc).unwrap()) {
			eprintln!("harness error: cannot write replay {}: {e}", path.display());
			std::process::exit(2);
		}
		println!(
			"VIOLATION property={} replay={} sut={} predicate={} step={} :: {}",
			v.property,
			path.display(),
			v.sut,
			v.predicate,
			v.step,
			v.detail
		);
		true
	};
	// group failing by class and minimise the first of each class
	let mut done_class: BTreeSet<(String, String, String)> = BTreeSet::new();
	for (run, v, case) in &failing {
		if kf.findings.iter().any(|f| f.matches(v)) {
			report(*run, v, J::Null, 0);
			continue;
		}
		if !done_class.insert(v.class()) {
			new_violations += 1;
			continue;
		}
		let (min_case, rounds) = minimise(chk, case, &v.class());
		// re-execute the minimised case to report its own detail
		let mut st = Stats::default();
		let vs = exec_guarded(chk, &min_case, &mut st);
		let mv = vs.into_iter().find(|x| x.class() == v.class()).unwrap_or_else(|| v.clone());
		// a minimised case may have drifted into a known finding's condition; then keep the original
		let (rv, rc) = if kf.findings.iter().any(|f| f.matches(&mv)) {
			(v.clone(), case.clone())
		} else {
			(mv, min_case)
		};
		let replay = json!({"minimised": serde_json::to_value(&rc).unwrap(), "original": serde_json::to_value(case).unwrap()});
		if report(*run, &rv, replay, rounds) {
			new_violations += 1;
		}
	}
	for (v, replay) in &extra {
		if report(u64::MAX, v, replay.clone(), 0) {
			new_violations += 1;
		}
	}
	for (fid, (what, count)) in &known_seen {
		let prop = kf.findings.iter().find(|f| &f.id == fid).map_or("?", |f| f.property.as_str());
		println!("KNOWN-FINDING: property={prop} {what} [id={fid}, seen {count}x in this run]");
	}

	let wall = t0.elapsed().as_secs_f64();
	let zero_probes: Vec<&String> = total.probes.iter().filter(|(_, v)| **v == 0).map(|(k, _)| k).collect();
	let evaluations = n + extra.len() as u64;
	let evidence = json!({
		"property_id": id,
		"tier": tier.name(),
		"seed": seed,
		"level": chk.level(),
		"coverage": {
			"evaluations": evaluations,
			"distinct_nontrivial": nontrivial_cov.len(),
			"distinct_all": all_cov.len(),
			"rule": chk.rule(),
			"samples": samples,
			"ticks_simulated": total.ticks,
			"ops_simulated": total.ops,
			"runs_per_hour": if wall > 0.0 { (n as f64 / wall * 3600.0) as u64 } else { 0 },
			"ticks_per_hour": if wall > 0.0 { (total.ticks as f64 / wall * 3600.0) as u64 } else { 0 },
			"faults_fired": total.faults,
			"probes": total.probes,
			"probes_stuck_at_zero": zero_probes,
			"suts_covered": total.suts,
			"worst_observed_error_in_drift_units": total.maxima,
			"oracle_verdicts_checked": total.checked,
			"oracle_verdicts_exempt": total.exempt,
			"components": chk.components(),
			"known_findings_seen": known_seen.iter().map(|(k, v)| json!({"id": k, "count": v.1})).collect::<Vec<_>>(),
			"event_log_hash": format!("{:016x}", total.log_hash),
			"feature_set": feature_set(),
			"profile": profile_name(),
			"threads": nthreads,
		},
		"assumptions": chk.assumptions(),
		"wall_s": wall,
		"violations": new_violations,
	});
	let _ = std::fs::create_dir_all(dir.join("evidence"));
	let ev_path = dir.join("evidence").join(format!("{id}.json"));
	if std::env::var("VERIF_NO_EVIDENCE").is_err() {
		if let Err(e) = std::fs::write(&ev_path, serde_json::to_string_pretty(&evidence).unwrap()) {
			eprintln!("harness error: cannot write evidence {}: {e}", ev_path.display());
			std::process::exit(2);
		}
	}
	println!(
		"summary check={id} runs={n} ticks={} ops={} coverage_tuples={} (nontrivial {}) violations={new_violations} known={} wall={wall:.1}s log_hash={:016x} verdicts_checked={} verdicts_exempt={}",
		total.ticks,
		total.ops,
		all_cov.len(),
		nontrivial_cov.len(),
		known_seen.len(),
		total.log_hash,
		total.checked,
		total.exempt
	);
	Outcome {
		exit: i32::from(new_violations > 0),
	}
}

/// replay an explicit case from a replay file; exit 1 + VIOLATION when it reproduces, 2 when it does not
pub fn replay_check<C: Check>(chk: &C, path: &str) -> Outcome {
	silence_panics();
	let txt = match std::fs::read_to_string(path) {
		Ok(t) => t,
		Err(e) => {
			eprintln!("harness error: cannot read {path}: {e}");
			return Outcome { exit: 2 };
		}
	};
	let doc: J = match serde_json::from_str(&txt) {
		Ok(d) => d,
		Err(e) => {
			eprintln!("harness error: cannot parse {path}: {e}");
			return Outcome { exit: 2 };
		}
	};
	let case_j = if doc["case"]["minimised"].is_null() {
		doc["case"].clone()
	} else {
		doc["case"]["minimised"].clone()
	};
	let case: C::Case = match serde_json::from_value(case_j) {
		Ok(c) => c,
		Err(e) => {
			eprintln!("harness error: replay file does not hold a case of check {}: {e}", chk.id());
			return Outcome { exit: 2 };
		}
	};
	let mut st = Stats::default();
	let vs = exec_guarded(chk, &case, &mut st);
	let want = (
		doc["property"].as_str().unwrap_or("").to_string(),
		doc["sut"].as_str().unwrap_or("").to_string(),
		doc["predicate"].as_str().unwrap_or("").to_string(),
	);
	if let Some(v) = vs.iter().find(|v| v.class() == want) {
		println!(
			"VIOLATION property={} replay={path} sut={} predicate={} step={} :: {}",
			v.property, v.sut, v.predicate, v.step, v.detail
		);
		if doc["step"].as_u64() == Some(v.step as u64) {
			println!("replay reproduced the recorded violation at the recorded step");
		} else {
			println!(
				"replay reproduced the violation class at step {} (recorded: {})",
				v.step, doc["step"]
			);
		}
		Outcome { exit: 1 }
	} else if vs.is_empty() {
		println!("replay of {path}: no violation on the current tree");
		Outcome { exit: 0 }
	} else {
		for v in &vs {
			println!(
				"VIOLATION property={} replay={path} sut={} predicate={} step={} :: {}",
				v.property, v.sut, v.predicate, v.step, v.detail
			);
		}
		Outcome { exit: 1 }
	}
}

/// keep evidence samples readable: cut long arrays
pub fn truncate_json(j: J, max: usize) -> J {
	match j {
		J::Array(a) => {
			let n = a.len();
			let mut v: Vec<J> = a.into_iter().take(max).map(|x| truncate_json(x, max)).collect();
			if n > max {
				v.push(J::String(format!("... {} more", n - max)));
			}
			J::Array(v)
		}
		J::Object(o) => J::Object(o.into_iter().map(|(k, v)| (k, truncate_json(v, max))).collect()),
		other => other,
	}
}

/// determinism self check: run the first `n` cases twice on this thread and once through the pool at another
/// worker count; all event-log hashes must agree.
pub fn selfcheck_determinism<C: Check>(chk: &C, n: u64) -> bool {
	let seed = seed_from_env();
	let root = Rng::new(crate::rng::mix(seed, crate::rng::fnv(chk.id())));
	let mut ok = true;
	let run = |i: u64| {
		let case = chk.generate(&root, i, Tier::Quick);
		let mut st = Stats::default();
		let vs = exec_guarded(chk, &case, &mut st);
		let mut h = st.log_hash;
		for v in &vs {
			h ^= crate::rng::fnv(&format!("{}{}{}{}", v.property, v.sut, v.predicate, v.step));
		}
		(h, serde_json::to_string(&case).unwrap())
	};
	let first: Vec<(u64, String)> = (0..n).map(run).collect();
	let second: Vec<(u64, String)> = std::thread::scope(|s| {
		let hs: Vec<_> = (0..4u64)
			.map(|t| s.spawn(move || (0..n).filter(|i| i % 4 == t).map(|i| (i, run(i))).collect::<Vec<_>>()))
			.collect();
		let mut all: Vec<(u64, (u64, String))> = hs.into_iter().flat_map(|h| h.join().unwrap()).collect();
		all.sort_by_key(|x| x.0);
		all.into_iter().map(|x| x.1).collect()
	});
	for i in 0..n as usize {
		if first[i] != second[i] {
			eprintln!("determinism self-check FAILED for check {} run {i}", chk.id());
			ok = false;
		}
	}
	ok
}
