//! C10 — invalid parameters are rejected with an error; accepted instances never panic.
//! Configuration swarm with stratified coverage of every PeriodType value (partial fit: constructor totality is
//! stateless; the stateful clause "every accepted instance survives any valid stream" runs on the fault feed).

use crate::cfgmut::{self, MA_SERDE_NAMES, SOURCE_SERDE_NAMES};
use crate::common::*;
use crate::feed::{self, FaultCount, FeedCfg};
use crate::ieng;
use crate::meng::{self, Made, MCase};
use crate::rng::Rng;
use crate::simfmt::Value;
use crate::sut::{self, In, InKind, PKind, Params, PMAX};
use serde::{Deserialize, Serialize};
use serde_json::json;
use std::str::FromStr;

#[derive(Clone, Debug, Serialize, Deserialize)]
pub enum Case {
	Method(MCase),
	Indicator(MCase),
	Parse { target: String, text: String },
}

pub struct C10;

fn min_len(name: &str) -> u64 {
	match name {
		"HMA" | "LinReg" | "StDev" | "MedianAbsDev" => 2,
		"Integral" | "ADI" => 0,
		_ => 1,
	}
}

/// does the documentation of the constructor require rejection of these parameters?
fn must_reject(name: &str, p: &Params) -> bool {
	match p {
		Params::Len(n) => *n < min_len(name),
		Params::Two(a, b) => *a == 0 || *b == 0,
		Params::Weights(w) => w.is_empty(),
		Params::Usize(n) => *n == 0,
		Params::Renko(s, _) => !(s.0 > 0.0 && s.0 < 1.0),
		Params::Ma(k, n) => *n < min_len(sut::MA_KINDS[*k as usize % 15]),
		Params::Unit => false,
	}
}

const BOUNDARY: [u64; 9] = [0, 1, 2, 126, 127, 128, 253, 254, 255];

fn all_lens() -> Vec<u64> {
	if PMAX <= 255 {
		(0..=255).collect()
	} else {
		let mut v: Vec<u64> = (0..=300).collect();
		v.extend([1000, 4094, 4095, 4096, 65533, 65534, 65535].iter().filter(|x| **x <= PMAX));
		v
	}
}

impl Check for C10 {
	type Case = Case;
	fn id(&self) -> &'static str {
		"C10"
	}
	fn runs(&self, tier: Tier) -> u64 {
		match tier {
			Tier::Quick => 200_000,
			Tier::Thorough => 4_000_000,
		}
	}
	fn generate(&self, root: &Rng, i: u64, tier: Tier) -> Case {
		let run = root.sub_i("run", i);
		let mut r = run.sub("config");
		let methods = sut::methods();
		let inds = ieng::indicators();
		let kind = i % 10;
		if kind < 5 {
			// method constructors: stratified over every length value
			let k = i / 10 * 5 + kind;
			let info = &methods[(k % methods.len() as u64) as usize];
			let j = k / methods.len() as u64;
			let lens = all_lens();
			let params = match info.pkind {
				PKind::Len => Params::Len(lens[(j % lens.len() as u64) as usize]),
				PKind::Ma => Params::Ma((j % 15) as u8, lens[((j / 15) % lens.len() as u64) as usize]),
				PKind::Two => {
					if tier == Tier::Thorough || r.chance(0.5) {
						// full grid in thorough (65 536 pairs per method are reached through j), boundary grid otherwise
						if tier == Tier::Thorough {
							let q = j % 65_536;
							Params::Two((q / 256).min(PMAX), (q % 256).min(PMAX))
						} else {
							Params::Two(BOUNDARY[(j % 9) as usize], BOUNDARY[((j / 9) % 9) as usize])
						}
					} else {
						Params::Two(r.below(256.min(PMAX.saturating_add(1))), r.below(256.min(PMAX.saturating_add(1))))
					}
				}
				PKind::Unit => Params::Unit,
				PKind::Weights => {
					let n = [0usize, 1, 2, 253, 254, 255, 256, 257][(j % 8) as usize];
					let zero_sum = r.chance(0.1);
					Params::Weights(
						(0..n)
							.map(|q| Fx(if zero_sum { if q % 2 == 0 { 1.0 } else { -1.0 } } else { 1.0 + q as f64 }))
							.collect(),
					)
				}
				PKind::Usize => Params::Usize([0u64, 1, 2, 7, u64::from(u32::MAX), usize::MAX as u64][(j % 6) as usize]),
				PKind::Renko => {
					let sizes = [-1.0, 0.0, 1e-300, f64::EPSILON / 2.0, f64::EPSILON, 1e-9, 0.01, 0.5, 1.0 - 1e-16, 1.0 - 1e-7, 1.0, 1.5, f64::NAN, f64::INFINITY, f64::NEG_INFINITY];
					Params::Renko(Fx(sizes[(j % sizes.len() as u64) as usize]), (j / 15 % 8) as u8)
				}
			};
			let n = params.len().min(300) as usize;
			let len = 600 + n;
			let mut fc = FaultCount::new();
			// the stream generator needs a valid length for its window heuristics only
			let gp = match &params {
				Params::Weights(w) if w.is_empty() => Params::Len(1),
				p => p.clone(),
			};
			let stream = meng::gen_stream(info, &gp, &mut run.sub("feed"), len, j % 3 == 0, &mut fc);
			Case::Method(MCase {
				sut: info.name.to_string(),
				params,
				stream,
				alt: vec![],
				ops: vec![],
				feed_faults: fc,
				first_chunk: 0,
				cfg: None,
			})
		} else if kind < 9 {
			let k = i / 10 * 4 + (kind - 5);
			let info = &inds[(k % inds.len() as u64) as usize];
			let j = k / inds.len() as u64;
			let def = (info.default_cfg)();
			// enumerate the mutable leaves of the configuration
			let mut leaves = 0usize;
			def.walk(&mut |v| {
				if cfgmut::is_period(v) || v.as_f64().is_some() || matches!(v, Value::Bool(_)) {
					leaves += 1;
				}
				if matches!(v, Value::NewtypeVariant(e, _, _) if e == "MA") || matches!(v, Value::UnitVariant(e, _) if e == "Source") {
					leaves += 1;
				}
			});
			let mut cfg = def.clone();
			let single = j % 3 != 2;
			let target = (j as usize / 3) % leaves.max(1);
			let choice = j as usize / 3 / leaves.max(1);
			let mut idx = 0usize;
			let periods = [0u64, 1, 2, 3, PMAX - 1, PMAX, PMAX / 2, PMAX / 2 + 1];
			let floats = [-1.0, 0.0, -0.0, 1e-300, 1e-9, 0.5, 1.0 - 1e-16, 1.0, 1.0 + 1e-15, 2.0, 1e9, f64::NAN, f64::INFINITY, f64::NEG_INFINITY];
			cfg.walk_mut(&mut |v| {
				let is_ma = matches!(v, Value::NewtypeVariant(e, _, _) if e == "MA");
				let is_src = matches!(v, Value::UnitVariant(e, _) if e == "Source");
				let is_leaf = cfgmut::is_period(v) || v.as_f64().is_some() || matches!(v, Value::Bool(_)) || is_ma || is_src;
				if !is_leaf {
					return;
				}
				let hit = if single { idx == target } else { r.chance(0.5) };
				let c = if single { choice } else { r.usize_below(1000) };
				idx += 1;
				if !hit {
					return;
				}
				if let Value::NewtypeVariant(_, kind, inner) = v {
					*kind = MA_SERDE_NAMES[c % 15].to_string();
					cfgmut::set_period(inner, periods[(c / 15) % periods.len()]);
					// the inner period is a leaf too and will be visited next; keep what was set
				} else if let Value::UnitVariant(_, var) = v {
					*var = SOURCE_SERDE_NAMES[c % 8].to_string();
				} else if let Value::Bool(b) = v {
					*b = c % 2 == 0;
				} else if cfgmut::is_period(v) {
					if single || r.chance(0.7) {
						cfgmut::set_period(v, periods[c % periods.len()]);
					}
				} else {
					cfgmut::set_float(v, floats[c % floats.len()]);
				}
			});
			let fcfg = FeedCfg::swarm(&mut run.sub("feedcfg"), 30, j % 3 == 0);
			let mut fc = FaultCount::new();
			// every tenth indicator run: a long one-sided trend with a ripple (same-side / consecutive-bar counters)
			let cs = if j % 10 == 7 {
				fc.insert("feed:long_one_sided_trend".into(), 1);
				feed::trend_ripple(&mut run.sub("feed"), 2500 + (j as usize % 3) * 1500)
			} else {
				feed::candles(&mut run.sub("feed"), 620, &fcfg, &mut fc)
			};
			Case::Indicator(MCase {
				sut: info.name.to_string(),
				params: Params::Unit,
				stream: feed::to_in_candles(&cs),
				alt: vec![],
				ops: vec![],
				feed_faults: fc,
				first_chunk: 0,
				cfg: Some(cfg),
			})
		} else {
			let k = i / 10;
			let garbage = [
				"", " ", "-", "--", "sma", "sma-", "-5", "sma-256", "sma-999999999999999999999", "sma--1", "sma-1.5", "SMA-5", "ema-0",
				"wsma-200", "lin_reg-5", "linreg-5", "vidya-255", "hma-1", "\u{1F600}-3", "sma-\u{0663}", "close ", " CLOSE", "hlc3",
				"volumed_price", "nan", "NaN", "inf", "-inf", "1e400", "0x10", "1_000", "+5", "５", "\0", "true", "1e-400", "255", "256", "-0",
			];
			let mut rr = run.sub("garbage");
			let text = if rr.chance(0.6) {
				garbage[rr.usize_below(garbage.len())].to_string()
			} else if rr.chance(0.5) {
				format!("{}-{}", MA_SERDE_NAMES[rr.usize_below(15)].replace('_', ""), rr.below(70_000))
			} else {
				(0..rr.below(12)).map(|_| char::from_u32(rr.below(0x2fff) as u32 + 1).unwrap_or('x')).collect()
			};
			let target = match k % 3 {
				0 => "MA".to_string(),
				1 => "Source".to_string(),
				_ => {
					let info = &inds[(k / 3 % inds.len() as u64) as usize];
					let def = (info.default_cfg)();
					let names: Vec<String> = match &def {
						Value::Struct(_, f) => f.iter().map(|(k, _)| k.clone()).collect(),
						_ => vec![],
					};
					let pname = if names.is_empty() || rr.chance(0.2) { "nonexistent".to_string() } else { names[rr.usize_below(names.len())].clone() };
					format!("set:{}:{}", info.name, pname)
				}
			};
			Case::Parse { target, text }
		}
	}
	fn execute(&self, case: &Case, stats: &mut Stats) -> Vec<Violation> {
		let mut vs = Vec::new();
		match case {
			Case::Method(c) => {
				let Some(info) = sut::method(&c.sut) else { return vs };
				stats.suts.insert(c.sut.clone());
				stats.ops += 1;
				let Some(f) = meng::factory(c) else { return vs };
				let n = c.params.len();
				let pdesc = match &c.params {
					Params::Weights(w) => format!("Weights(len {})", w.len()),
					p => format!("{p:?}"),
				};
				let reject = must_reject(&c.sut, &c.params);
				let lc = match &c.params {
					Params::Len(x) | Params::Ma(_, x) => match *x {
						0 => "0".to_string(),
						1 => "1".to_string(),
						x if x == PMAX => "MAX".to_string(),
						x if x == PMAX - 1 => "MAX-1".to_string(),
						x => format!("{}", x / 32 * 32),
					},
					Params::Two(a, b) => format!("{}|{}", meng::len_class(*a), meng::len_class(*b)),
					_ => meng::len_class(n).to_string(),
				};
				stats.cover(format!("{}|{lc}", c.sut));
				let first = match info.input {
					InKind::Val | InKind::Pair | InKind::Candle => c.stream[0],
				};
				match meng::construct(&f, &first) {
					Made::Panicked(m) => {
						vs.push(
							Violation::new("C10", &c.sut, "constructor_panics", 0, format!("{}::new({pdesc}) panicked: {m}", c.sut))
								.tag("params", &pdesc)
								.tag("length", n)
								.tag("panic", &m)
								.tag("max", if param_has_max(&c.sut, &c.params) { "yes" } else { "no" }),
						);
					}
					Made::Rejected(_) => {
						stats.probe("constructor_rejected");
					}
					Made::Ok(mut s) => {
						if reject {
							vs.push(
								Violation::new("C10", &c.sut, "constructor_accepts_documented_invalid", 0, format!("{}::new({pdesc}) returned Ok although the documentation requires rejection", c.sut))
									.tag("params", &pdesc),
							);
						}
						stats.probe("constructor_accepted");
						stats.nontrivial = true;
						for (t, x) in c.stream.iter().enumerate() {
							stats.ticks += 1;
							if let Err(m) = guarded(|| s.next(x)) {
								vs.push(
									Violation::new("C10", &c.sut, "accepted_instance_panics", t, format!("{}::new({pdesc}) was accepted; next() panicked at tick {t} on input {x:?}: {m}", c.sut))
										.tag("params", &pdesc)
										.tag("panic", &m)
										.tag("length", n),
								);
								break;
							}
						}
					}
				}
			}
			Case::Indicator(c) => {
				let Some(info) = ieng::indicator(&c.sut) else { return vs };
				let Some(cfg) = &c.cfg else { return vs };
				stats.suts.insert(c.sut.clone());
				stats.ops += 1;
				let pdesc = cfg.render();
				let valid = match guarded(|| (info.validate)(cfg)) {
					Ok(Ok(v)) => v,
					Ok(Err(_)) => {
						stats.probe("config_tree_not_deserializable");
						return vs;
					}
					Err(m) => {
						vs.push(Violation::new("C10", &c.sut, "validate_panics", 0, format!("validate() panicked on {pdesc}: {m}")).tag("params", &pdesc));
						return vs;
					}
				};
				stats.cover(format!("{}|valid={valid}|maxp={}", c.sut, cfgmut::max_period_in(cfg) == PMAX));
				match guarded(|| (info.make)(cfg, &c.stream[0])) {
					Err(m) => {
						vs.push(
							Violation::new("C10", &c.sut, "init_panics", 0, format!("init() panicked (validate() = {valid}) on {pdesc}: {m}"))
								.tag("params", &pdesc)
								.tag("valid", valid)
								.tag("panic", &m)
								.tag("max", if cfg_has_max(cfg) { "yes" } else { "no" }),
						);
					}
					Ok(Err(_)) => stats.probe("init_rejected"),
					Ok(Ok(mut s)) => {
						if !valid {
							vs.push(Violation::new("C10", &c.sut, "init_accepts_invalid_config", 0, format!("validate() is false but init() returned Ok for {pdesc}")).tag("params", &pdesc));
						}
						stats.probe("init_accepted");
						stats.nontrivial = true;
						for (t, x) in c.stream.iter().enumerate() {
							stats.ticks += 1;
							if let Err(m) = guarded(|| s.next(x)) {
								vs.push(
									Violation::new("C10", &c.sut, "accepted_instance_panics", t, format!("init() accepted {pdesc}; next() panicked at tick {t}: {m}"))
										.tag("params", &pdesc)
										.tag("panic", &m)
										.tag("max", if cfg_has_max(cfg) { "yes" } else { "no" }),
								);
								break;
							}
						}
					}
				}
			}
			Case::Parse { target, text } => {
				stats.ops += 1;
				stats.nontrivial = true;
				stats.cover(format!("parse|{}|{}", target.split(':').next().unwrap_or(""), text.len().min(12)));
				let r = if target == "MA" {
					guarded(|| yata::helpers::MA::from_str(text).is_ok())
				} else if target == "Source" {
					guarded(|| yata::core::Source::from_str(text).is_ok())
				} else {
					let parts: Vec<&str> = target.split(':').collect();
					let Some(info) = ieng::indicator(parts.get(1).copied().unwrap_or("")) else { return vs };
					let def = (info.default_cfg)();
					let pname = parts.get(2).copied().unwrap_or("");
					guarded(|| (info.set)(&def, pname, text).map(|o| o.result.is_ok()).unwrap_or(false))
				};
				if let Err(m) = r {
					vs.push(Violation::new("C10", target, "parse_panics", 0, format!("parsing {text:?} for {target} panicked: {m}")).tag("text", text));
				}
			}
		}
		stats.log(vs.len() as u64);
		vs
	}
	fn shrink(&self, case: &Case) -> Vec<Case> {
		match case {
			Case::Method(c) => {
				let mut v: Vec<Case> = Vec::new();
				let ns = c.stream.len();
				for keep in [1, ns / 2, ns - 1] {
					if keep >= 1 && keep < ns {
						let mut m = c.clone();
						m.stream.truncate(keep);
						v.push(Case::Method(m));
					}
				}
				v
			}
			Case::Indicator(c) => {
				let mut v: Vec<Case> = Vec::new();
				let ns = c.stream.len();
				for keep in [1, ns / 2, ns - 1] {
					if keep >= 1 && keep < ns {
						let mut m = c.clone();
						m.stream.truncate(keep);
						v.push(Case::Indicator(m));
					}
				}
				v
			}
			Case::Parse { .. } => vec![],
		}
	}
	fn rule(&self) -> String {
		"One evaluation = one configuration: (a) a method/MA constructor with parameters stratified over EVERY PeriodType value 0..=255 (all 65 536 \
		 pairs for two-parameter methods in thorough; boundary grid {0,1,2,126,127,128,253,254,255}^2 plus seeded pairs in quick), Conv weight vectors of \
		 length 0/1/2/253..257, Renko sizes incl. <=0, eps, NaN, inf, CollapseTimeframe 0/1/usize::MAX; (b) an indicator configuration with one field (or a seeded \
		 subset) pushed to {0,1,2,3,MAX/2,MAX/2+1,MAX-1,MAX} / float specials / every MA kind / every Source; (c) MA::from_str, Source::from_str and \
		 IndicatorConfig::set on seeded garbage. Oracle: Ok or Err, never a panic; Err when validate() is false or a documented minimum is undercut; every accepted \
		 instance then consumes a 600+ tick fault feed under catch_unwind. Coverage tuple = (SUT, parameter class). Non-trivial = accepted and fed, or parse case."
			.into()
	}
	fn assumptions(&self) -> Vec<String> {
		vec![
			"strict build profile: debug assertions and overflow checks are on, as in the dev profile the baseline suite runs in".into(),
			"documented minima taken from the constructors' doc comments (DESIGN.md App. A)".into(),
		]
	}
	fn components(&self) -> serde_json::Value {
		json!({"real": ["every Method::new, MA::init, MA::from_str, Source::from_str, IndicatorConfig::validate/init/set, next() of every accepted instance"],
			"stub": ["configuration swarm", "fault feed"]})
	}
}

/// a configuration reaches the PeriodType::MAX family when some period equals MAX or a (left, right) pair spans
/// a window of MAX elements
fn cfg_has_max(cfg: &Value) -> bool {
	if cfgmut::max_period_in(cfg) >= PMAX {
		return true;
	}
	let mut left = 0u64;
	let mut right = 0u64;
	if let Value::Struct(_, f) = cfg {
		for (k, v) in f {
			if k.ends_with("left") {
				left = v.as_u64().unwrap_or(0);
			}
			if k.ends_with("right") {
				right = v.as_u64().unwrap_or(0);
			}
		}
	}
	left + right + 1 >= PMAX
}

fn param_has_max(sut: &str, p: &Params) -> bool {
	match p {
		Params::Len(n) | Params::Ma(_, n) => *n == PMAX,
		// reversal detectors: the known finding is the window of exactly MAX elements (left + right + 1 == MAX); larger
		// sums are rejected with Err on the pinned tree and must stay rejected
		Params::Two(a, b) if sut.contains("Reversal") => a + b + 1 == PMAX,
		Params::Two(a, b) => *a == PMAX || *b == PMAX,
		Params::Weights(w) => w.len() as u64 >= PMAX,
		_ => false,
	}
}
