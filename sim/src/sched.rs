//! C09 (streaming = batch = chunked; clones independent; peek) and C13 (snapshots restore identical instances;
//! malformed window data rejected) — the full-fit schedule checks built on the two-run discipline.

use crate::cfgmut;
use crate::common::*;
use crate::feed::{self, FaultCount, FeedCfg};
use crate::ieng;
use crate::meng::{self, Factory, MCase, Made, Op};
use crate::rng::Rng;
use crate::simfmt::{self, SerCtl};
use crate::sut::{self, In, Out, Params};
use serde_json::json;

pub struct SchedCheck {
	pub id: &'static str,
}

fn n_methods() -> usize {
	sut::methods().len()
}
fn n_inds() -> usize {
	ieng::indicators().len()
}

/// draw a case over a method (k < n_methods) or an indicator
pub fn draw_case(run: &Rng, slot: usize, k: u64, tier: Tier, len_hint: usize, want_serde: bool) -> Option<MCase> {
	let nm = n_methods();
	let mut rc = run.sub("config");
	let fault_free = k % 4 == 0;
	let mut fc = FaultCount::new();
	if slot < nm {
		let info = &sut::methods()[slot];
		if want_serde && !info.serde {
			return None;
		}
		let mut params = meng::gen_params(info, &mut rc, tier, k, false);
		// keep windows moderate so that every phase is visited within the stream
		if let Params::Len(n) = params {
			if n > 64 && rc.chance(0.6) {
				params = Params::Len(2 + n % 40);
			}
		}
		let n = params.len() as usize;
		let len = len_hint.max(2 * n + 8);
		let stream = meng::gen_stream(info, &params, &mut run.sub("feed"), len, fault_free, &mut fc);
		let alt = meng::gen_stream(info, &params, &mut run.sub("alt"), (n + 10).min(80), fault_free, &mut FaultCount::new());
		Some(MCase {
			sut: info.name.to_string(),
			params,
			stream,
			alt,
			ops: Vec::new(),
			feed_faults: fc,
			first_chunk: 0,
			cfg: None,
		})
	} else {
		let info = &ieng::indicators()[slot - nm];
		if want_serde && !info.inst_serde {
			return None;
		}
		let cfgf = FeedCfg::swarm(&mut run.sub("feedcfg"), 20, fault_free);
		let first_c = feed::candles(&mut run.sub("first"), 1, &cfgf, &mut FaultCount::new());
		let first = feed::to_in_candles(&first_c)[0];
		let (cfg, _mutated) = cfgmut::valid_cfg(info, &mut rc, &first, if tier == Tier::Thorough { 120 } else { 40 }, 12);
		let w = cfgmut::max_period_in(&cfg) as usize;
		let mut cfgf = cfgf;
		cfgf.window = w;
		let len = len_hint.max(2 * w + 8);
		let mut cs = feed::candles(&mut run.sub("feed"), len, &cfgf, &mut fc);
		cs[0] = first_c[0];
		let alt = feed::candles(&mut run.sub("alt"), (w + 10).min(80), &cfgf, &mut FaultCount::new());
		Some(MCase {
			sut: info.name.to_string(),
			params: Params::Len(w as u64),
			stream: feed::to_in_candles(&cs),
			alt: feed::to_in_candles(&alt),
			ops: Vec::new(),
			feed_faults: fc,
			first_chunk: 0,
			cfg: Some(cfg),
		})
	}
}

fn extra_c09(f: &Factory, case: &MCase, a: &[Out], stats: &mut Stats) -> Vec<Violation> {
	let mut vs = Vec::new();
	let k = (case.first_chunk as usize).min(case.stream.len());
	let n = case.params.len();
	let chunk = &case.stream[..k];
	let mut cmp = |what: &str, got: Result<Result<Vec<Out>, String>, String>, stats: &mut Stats| {
		stats.fault(&format!("delivery:{what}"));
		stats.cover(format!("{}|{}|{what}|{}", case.sut, meng::len_class(n), if k == 0 { "empty" } else { "nonempty" }));
		match got {
			Ok(Ok(o)) => {
				if o.len() != k {
					vs.push(
						Violation::new("C09", &case.sut, "one_output_per_input", 0, format!("{what} returned {} outputs for {k} inputs", o.len()))
							.tag("length", n),
					);
				} else if let Some(j) = (0..k).find(|j| o[*j] != a[*j]) {
					vs.push(
						Violation::new("C09", &case.sut, "batch_equals_streaming", j, format!("{what} over the first {k} inputs: element {j} = {:?}, streaming gives {:?}", o[j], a[j]))
							.tag("length", n)
							.tag("api", what),
					);
				}
			}
			Ok(Err(e)) => vs.push(Violation::new("C09", &case.sut, "batch_api_fails", 0, format!("{what} returned Err({e}) where new/init succeeds")).tag("length", n)),
			Err(p) => vs.push(Violation::new("C09", &case.sut, "batch_api_panics", 0, format!("{what} panicked: {p}")).tag("length", n)),
		}
	};
	if f.is_indicator {
		let info = ieng::indicator(&case.sut).unwrap();
		let cfg = case.cfg.as_ref().unwrap();
		cmp("IndicatorConfig::over", guarded(|| (info.cfg_over)(cfg, chunk)), stats);
		if k > 0 {
			cmp("IndicatorConfig::init_fn", guarded(|| (info.cfg_init_fn)(cfg, chunk)), stats);
		}
		cmp("dyn IndicatorConfigDyn::over", guarded(|| (info.dyn_over)(cfg, chunk)), stats);
	} else {
		let info = sut::method(&case.sut).unwrap();
		if let Some(no) = info.new_over {
			cmp("new_over", guarded(|| no(&case.params, chunk)), stats);
		}
		if let Some(na) = info.new_apply {
			cmp("new_apply", guarded(|| na(&case.params, chunk)), stats);
		}
		if let (Some(nf), true) = (info.new_fn, k > 0) {
			cmp("new_fn", guarded(|| nf(&case.params, chunk)), stats);
		}
	}
	// wrappers
	if case.sut == "WithHistory<SMA>" {
		use yata::core::Method;
		use yata::helpers::{Buffered, WithHistory};
		use yata::methods::SMA;
		if let Params::Len(n) = case.params {
			let x0 = case.stream[0].val() as yata::core::ValueType;
			if let Ok(mut w) = WithHistory::<SMA, yata::core::ValueType>::new(n as yata::core::PeriodType, &x0) {
				for (i, x) in case.stream.iter().enumerate() {
					let o = w.next(&(x.val() as yata::core::ValueType));
					let _ = o;
					if i % 7 == 0 || i + 1 == case.stream.len() {
						// get(j): newest first; iter(): oldest first
						let j = i / 2;
						let g = Buffered::get(&w, j).map(|v| sut::fbits(v));
						let want = a[i - j].w[0];
						if g != Some(want) {
							vs.push(Violation::new("C09", &case.sut, "history_get", i, format!("get({j}) after {} outputs = {g:?}, recorded output bits {want}", i + 1)));
							break;
						}
						if w.get(i + 1).is_some() {
							vs.push(Violation::new("C09", &case.sut, "history_get", i, format!("get({}) beyond the history returned a value", i + 1)));
							break;
						}
						let all: Vec<u64> = w.iter().map(|v| sut::fbits(*v)).collect();
						let rec: Vec<u64> = a[..=i].iter().map(|o| o.w[0]).collect();
						let into: Vec<u64> = (&w).into_iter().map(|v| sut::fbits(*v)).collect();
						if all != rec || into != rec {
							vs.push(Violation::new("C09", &case.sut, "history_iter", i, "iter()/IntoIterator do not yield the recorded outputs oldest-first".into()));
							break;
						}
					}
				}
				stats.probe("with_history_observers");
			}
		}
	}
	if case.sut.starts_with("WithLastValue<") {
		// documented priming: the inner method is created from x0 and fed x0 once
		let inner = case.sut.trim_start_matches("WithLastValue<").trim_end_matches('>');
		if let Some(ii) = sut::method(inner) {
			let mut primed: Vec<In> = vec![case.stream[0]];
			primed.extend_from_slice(&case.stream);
			let fi = Factory {
				name: inner.to_string(),
				peek: ii.peek,
				serde: ii.serde,
				is_indicator: false,
				make: {
					let p = case.params.clone();
					let mk = ii.make;
					Box::new(move |first| mk(&p, first))
				},
			};
			if let Ok(b) = meng::run_a(&fi, &primed) {
				if let Some(j) = (0..a.len()).find(|j| a[*j] != b[*j + 1]) {
					vs.push(Violation::new("C09", &case.sut, "last_value_wrapper_priming", j, format!("output {j} = {:?}; the plain method primed as documented gives {:?}", a[j], b[j + 1])));
				}
				stats.probe("with_last_value_priming");
			}
		}
	}
	vs
}

/// enumerate the crash point: snapshot after j ticks for every j in 0..=min(2n+3, len), restore through the
/// format j mod 3, deliver the next `tail` ticks to the restored instance
fn crash_sweep(f: &Factory, case: &MCase, a: &[Out], stats: &mut Stats) -> Vec<Violation> {
	let mut vs = Vec::new();
	let n = case.params.len() as usize;
	let len = case.stream.len();
	let maxj = (2 * n + 3).min(len);
	let tail = n + 12;
	let Made::Ok(mut s) = meng::construct(f, &case.stream[0]) else { return vs };
	for j in 0..=maxj {
		let ctl = SerCtl::new(None);
		let snap = guarded(|| s.snapshot(&ctl));
		stats.ops += 1;
		match snap {
			Ok(Some(Ok(tree))) => {
				let fmt = if j % 3 == 2 && tree.has_nonfinite() { 0 } else { j % 3 };
				stats.fault("crash_restore");
				let phase = if n == 0 { 0 } else { j % n };
				stats.cover(format!(
					"{}|{}|sweep:fmt{fmt}|{}|{}",
					case.sut,
					meng::len_class(n as u64),
					if j < n { "warmup" } else { "steady" },
					if phase == 0 { "phase0" } else if phase + 1 == n { "phase_n-1" } else { "mid" }
				));
				let restored = match fmt {
					2 => guarded(|| s.json_roundtrip()),
					1 => guarded(|| {
						let b = simfmt::encode(&tree);
						let t = simfmt::decode(&b).expect("codec round-trips");
						s.restore(&t)
					}),
					_ => guarded(|| s.restore(&tree)),
				};
				match restored {
					Ok(Some(Ok(mut r))) => {
						for t in j..len.min(j + tail) {
							match guarded(|| r.next(&case.stream[t])) {
								Ok(o) => {
									stats.ticks += 1;
									stats.checked += 1;
									if o != a[t] {
										vs.push(
											Violation::new("C13", &case.sut, "restored_instance_diverges", t, format!("snapshot after {j} ticks (format {fmt}), restored: tick {t} gives {o:?}, the original gave {:?}", a[t]))
												.tag("length", n)
												.tag("crash_point", j),
										);
										return vs;
									}
								}
								Err(p) => {
									vs.push(Violation::new("C13", &case.sut, "restored_instance_panics", t, format!("snapshot after {j} ticks, restored instance panicked at tick {t}: {p}")).tag("length", n));
									return vs;
								}
							}
						}
						// second generation: snapshot of the restored instance equals the snapshot of the original
						if j % 5 == 0 {
							let c2 = SerCtl::new(None);
							if let (Ok(Some(Ok(t2))), true) = (guarded(|| s.restore(&tree).and_then(|x| x.ok()).and_then(|x| x.snapshot(&c2))), fmt != 2) {
								if t2 != tree {
									vs.push(Violation::new("C13", &case.sut, "resnapshot_differs", j, format!("snapshot of the restored instance differs from the snapshot it was restored from: {} vs {}", t2.render(), tree.render())).tag("length", n));
									return vs;
								}
							}
						}
					}
					Ok(Some(Err(e))) => {
						vs.push(
							Violation::new("C13", &case.sut, "own_snapshot_rejected", j, format!("snapshot after {j} ticks (format {fmt}) rejected by Deserialize: {e}; snapshot = {}", tree.render()))
								.tag("length", n)
								.tag("crash_point", j),
						);
						return vs;
					}
					Ok(None) => return vs,
					Err(p) => {
						vs.push(Violation::new("C13", &case.sut, "deserialize_panics", j, format!("Deserialize panicked on an undamaged snapshot taken after {j} ticks: {p}")).tag("length", n));
						return vs;
					}
				}
				// disk-full sweep at one crash point: every k
				if j == maxj / 2 {
					let calls = ctl.calls.get();
					for k in 0..calls {
						let c = SerCtl::new(Some(k));
						stats.fault("storage:ser_error@k");
						match guarded(|| s.snapshot(&c)) {
							Ok(Some(Err(e))) if e.0 == simfmt::INJECTED => {}
							other => {
								vs.push(Violation::new("C13", &case.sut, "ser_error_swallowed", j, format!("serializer failed at call {k} of {calls}; serialize returned {:?}", other.map(|o| o.map(|r| r.map(|v| v.render()))))).tag("length", n));
								return vs;
							}
						}
					}
				}
			}
			Ok(Some(Err(e))) => {
				vs.push(Violation::new("C13", &case.sut, "serialize_fails", j, format!("serialize returned Err without an injected fault: {e}")).tag("length", n));
				return vs;
			}
			Ok(None) => return vs,
			Err(p) => {
				vs.push(Violation::new("C13", &case.sut, "serialize_panics", j, format!("serialize panicked: {p}")).tag("length", n));
				return vs;
			}
		}
		if j < len {
			if guarded(|| s.next(&case.stream[j])).is_err() {
				return vs;
			}
		}
	}
	vs
}

/// round trips of configurations and small value types (C13: "configurations round-trip to equal configurations")
fn cfg_roundtrips(case: &MCase, stats: &mut Stats) -> Vec<Violation> {
	use yata::core::{Action, Candle, IndicatorResult, ValueType};
	let mut vs = Vec::new();
	if let (Some(cfg), Some(info)) = (&case.cfg, ieng::indicator(&case.sut)) {
		for (what, r) in [
			("tree+bytes", guarded(|| (info.cfg_roundtrip)(cfg))),
			("json", guarded(|| (info.cfg_json_roundtrip)(cfg))),
		] {
			stats.fault("config_roundtrip");
			match r {
				Ok(Ok((t2, d1, d2))) => {
					if &t2 != cfg || d1 != d2 {
						vs.push(Violation::new("C13", &case.sut, "config_roundtrip", 0, format!("configuration changed in a {what} round trip: {d1} -> {d2}")));
					}
				}
				Ok(Err(e)) => vs.push(Violation::new("C13", &case.sut, "config_roundtrip", 0, format!("configuration does not survive a {what} round trip: {e}"))),
				Err(p) => vs.push(Violation::new("C13", &case.sut, "config_roundtrip", 0, format!("{what} round trip panicked: {p}"))),
			}
		}
	}
	// small value types, driven by the stream values
	for (i, x) in case.stream.iter().take(40).enumerate() {
		let c: Candle = x.candle();
		let via = |v: &simfmt::Value| simfmt::decode(&simfmt::encode(v));
		macro_rules! rt {
			($val:expr, $t:ty, $name:literal, $same:expr) => {{
				let v: $t = $val;
				match simfmt::to_value(&v).ok().and_then(|t| via(&t).ok()).and_then(|t| simfmt::from_value::<$t>(&t).ok()) {
					Some(v2) => {
						let same: fn(&$t, &$t) -> bool = $same;
						if !same(&v, &v2) {
							vs.push(Violation::new("C13", $name, "value_roundtrip", i, format!("{:?} -> {:?}", v, v2)));
						}
					}
					None => vs.push(Violation::new("C13", $name, "value_roundtrip", i, format!("{:?} does not round-trip", v))),
				}
			}};
		}
		rt!(c, Candle, "Candle", |a, b| a == b);
		let av = x.val();
		rt!(Action::from(av as ValueType / 100.0), Action, "Action", |a, b| format!("{a:?}") == format!("{b:?}"));
		rt!(sut::SOURCES[i % 8], yata::core::Source, "Source", |a, b| a == b);
		rt!(sut::ma_of((i % 15) as u8, (i as u64 * 7) % 250 + 1), yata::helpers::MA, "MA", |a, b| a == b);
		let res = IndicatorResult::new(&[c.open, c.high, c.low][..(i % 4).min(3)], &[Action::from(av as ValueType), Action::None][..i % 3]);
		rt!(res, IndicatorResult, "IndicatorResult", |a, b| format!("{a:?}") == format!("{b:?}") && a.size() == b.size());
	}
	vs
}

impl Check for SchedCheck {
	type Case = MCase;
	fn id(&self) -> &'static str {
		self.id
	}
	fn level(&self) -> &'static str {
		if self.id == "C13" {
			"fault_enumeration"
		} else {
			"exploration"
		}
	}
	fn runs(&self, tier: Tier) -> u64 {
		let slots = (n_methods() + n_inds()) as u64;
		match (self.id, tier) {
			("C09", Tier::Quick) => slots * 4_000,
			("C09", Tier::Thorough) => slots * 60_000,
			(_, Tier::Quick) => slots * 300,
			(_, Tier::Thorough) => slots * 8_000,
		}
	}
	fn generate(&self, root: &Rng, i: u64, tier: Tier) -> MCase {
		let slots = n_methods() + n_inds();
		let mut slot = (i % slots as u64) as usize;
		let k = i / slots as u64;
		let run = root.sub_i("run", i);
		let mut rl = run.sub("len");
		let len_hint = 20 + rl.usize_below(if tier == Tier::Quick { 200 } else { 500 });
		let want_serde = self.id == "C13";
		let mut case = loop {
			match draw_case(&run, slot, k, tier, len_hint, want_serde) {
				Some(c) => break c,
				None => slot = (slot + 1) % slots,
			}
		};
		let (peek, serde) = if case.cfg.is_some() {
			(false, ieng::indicator(&case.sut).map_or(false, |i| i.inst_serde))
		} else {
			let m = sut::method(&case.sut).unwrap();
			(m.peek, m.serde)
		};
		let n = case.params.len();
		let mut ro = run.sub("ops");
		if self.id == "C09" {
			case.ops = meng::gen_ops(&mut ro, case.stream.len(), n, peek, false, false, true);
			case.first_chunk = match ro.below(5) {
				0 => 0,
				1 => 1,
				_ => ro.below(case.stream.len() as u64 + 1) as u32,
			};
		} else {
			// multi-crash traces with storage faults; the crash-point sweep is done by execute
			case.ops = meng::gen_ops(&mut ro, case.stream.len(), n, false, serde, k % 4 != 0, false);
		}
		case
	}
	fn execute(&self, case: &MCase, stats: &mut Stats) -> Vec<Violation> {
		let Some(f) = meng::factory(case) else { return Vec::new() };
		stats.suts.insert(case.sut.clone());
		for (k, v) in &case.feed_faults {
			stats.fault_n(k, *v);
		}
		if case.stream.is_empty() {
			return Vec::new();
		}
		let a = match meng::run_a(&f, &case.stream) {
			Ok(a) => a,
			Err(_) => {
				stats.probe("run_a_failed_skipped (belongs to C10)");
				return Vec::new();
			}
		};
		let mut vs = meng::run_b(&f, case, &a, stats);
		if self.id == "C09" {
			vs.extend(extra_c09(&f, case, &a, stats));
		} else {
			vs.extend(crash_sweep(&f, case, &a, stats));
			vs.extend(cfg_roundtrips(case, stats));
		}
		stats.log(vs.len() as u64);
		vs.into_iter().filter(|v| v.property == self.id).collect()
	}
	fn shrink(&self, case: &MCase) -> Vec<MCase> {
		let mut v = meng::shrink_mcase(case, 1);
		if case.first_chunk > 0 {
			let mut c = case.clone();
			c.first_chunk /= 2;
			v.push(c);
		}
		if !case.alt.is_empty() {
			let mut c = case.clone();
			c.alt.truncate(case.alt.len() / 2);
			v.push(c);
		}
		v
	}
	fn rule(&self) -> String {
		if self.id == "C09" {
			"One evaluation = one seeded (SUT, parameters/configuration, fault-feed stream, operation trace) pair of runs: run A delivers \
			 the stream with new + next only; run B delivers it through the drawn trace (chunk boundaries incl. empty chunks, batch API per \
			 chunk: over by reference / by value, Sequence::call, apply, into_fn closure, new_over/new_apply/IndicatorConfig::over/init_fn/dyn \
			 over for the first chunk; peek; fork with an interleaved different continuation). Oracle: bitwise equality per tick. Coverage tuple \
			 = (SUT, length class, event kind, chunk-length class | phase); distinct_nontrivial counts tuples of runs with at least one \
			 non-Tick event."
				.into()
		} else {
			"One evaluation = one seeded (SUT, parameters/configuration, stream) for which the crash point is ENUMERATED: a snapshot is taken after \
			 j ticks for every j in 0..=min(2n+3, len) through wire format j mod 3 (value tree, byte codec, JSON), restored, and the restored \
			 instance is fed the following n+12 ticks and compared bitwise with the uninterrupted run; at one crash point the serializer \
			 fails at every call index k in turn; plus a seeded multi-crash trace with storage faults (truncate, bit flip, window index/buffer \
			 damage, dropped field, NaN in a median window) on fresh snapshots. Coverage tuple = (SUT, length class, format, warm-up|steady, ring \
			 phase class | fault kind)."
				.into()
		}
	}
	fn assumptions(&self) -> Vec<String> {
		vec![
			"run A (new + next per element) is the reference behaviour; its own correctness is the subject of C02-C06".into(),
			"the simfmt serializer/deserializer and serde_json are faithful carriers (self-checked: tree -> bytes -> tree round-trips)".into(),
		]
	}
	fn components(&self) -> serde_json::Value {
		json!({"real": ["all yata methods, MAInstance, WithHistory/WithLastValue, all 36 indicators + Example, their Clone, batch APIs and serde impls"],
			"stub": ["feed generator", "scheduler of delivery/crash/fork/storage-fault events", "in-memory snapshot store (simfmt tree, byte codec, JSON)"]})
	}
}
