//! Feed generator with injectable feed faults (DESIGN.md §2.3): seeded concatenation of regimes.
//! The generator returns explicit streams; checks store them in their cases, so replay never needs the PRNG.

use crate::rng::Rng;
use crate::sut::{vt, In};
use std::collections::BTreeMap;

#[derive(Clone, Copy, Debug, PartialEq, Eq, PartialOrd, Ord)]
pub enum Regime {
	Walk,
	ZigZag,
	MonoUp,
	MonoDown,
	Stuck,
	Plateau,
	Alphabet,
	Spike,
	ScaleJump,
	Gap,
	ZeroVolume,
	Degenerate,
	/// market data on a tick grid: every price is a small integer multiple of a power-of-two tick, bars are a few
	/// ticks high, so price moves are exact and equal moves, equal highs/lows, inside and outside bars occur all the time
	TickGrid,
}

pub const CALM: [Regime; 4] = [Regime::Walk, Regime::ZigZag, Regime::MonoUp, Regime::MonoDown];
pub const ALL: [Regime; 13] = [
	Regime::Walk,
	Regime::ZigZag,
	Regime::MonoUp,
	Regime::MonoDown,
	Regime::Stuck,
	Regime::Plateau,
	Regime::Alphabet,
	Regime::Spike,
	Regime::ScaleJump,
	Regime::Gap,
	Regime::ZeroVolume,
	Regime::Degenerate,
	Regime::TickGrid,
];

#[derive(Clone, Debug)]
pub struct FeedCfg {
	pub regimes: Vec<Regime>,
	/// decimal exponent of the level
	pub scale_exp: i32,
	/// values may be negative / cross zero (raw value streams only)
	pub signed: bool,
	/// small-integer stream (sums exact)
	pub integer: bool,
	/// typical regime length
	pub seg: usize,
	/// window length of the consumer (stuck segments are made longer than this with probability 1/2)
	pub window: usize,
}

impl FeedCfg {
	/// swarm: each run enables a random subset of regimes
	pub fn swarm(r: &mut Rng, window: usize, fault_free: bool) -> FeedCfg {
		let window = window.min(5000);
		let mut regimes: Vec<Regime> = Vec::new();
		if fault_free {
			for g in CALM {
				if r.chance(0.7) {
					regimes.push(g);
				}
			}
			if regimes.is_empty() {
				regimes.push(Regime::Walk);
			}
		} else {
			regimes.push(Regime::Walk);
			for g in &ALL[1..] {
				let p = match g {
					Regime::Spike | Regime::ScaleJump => 0.2,
					_ => 0.45,
				};
				if r.chance(p) {
					regimes.push(*g);
				}
			}
		}
		// single precision: keep squares and window sums far from f32::MAX (overflow is not a rounding effect)
		let scale_exp = if r.chance(0.5) {
			0
		} else if cfg!(feature = "value_type_f32") {
			r.range(0, 8) as i32 - 4
		} else {
			r.range(0, 18) as i32 - 9
		};
		// extreme magnitudes (double precision, fault configurations): everything the methods compute is scale-free, an
		// absolute constant hidden in a guard or tolerance is not
		let scale_exp = if !cfg!(feature = "value_type_f32") && !fault_free && r.chance(0.08) {
			(20 + r.range(0, 40) as i32) * if r.chance(0.5) { 1 } else { -1 }
		} else {
			scale_exp
		};
		FeedCfg {
			regimes,
			scale_exp,
			signed: r.chance(0.4),
			integer: !fault_free && r.chance(0.15),
			seg: 3 + r.usize_below(2 * window + 20),
			window,
		}
	}
}

pub type FaultCount = BTreeMap<String, u64>;

fn bump(fc: &mut FaultCount, k: &str) {
	*fc.entry(k.to_string()).or_insert(0) += 1;
}

fn seg_len(r: &mut Rng, cfg: &FeedCfg) -> usize {
	1 + r.usize_below(cfg.seg.max(1))
}

/// raw ValueType stream
pub fn values(r: &mut Rng, len: usize, cfg: &FeedCfg, fc: &mut FaultCount) -> Vec<f64> {
	let mut out = Vec::with_capacity(len);
	let scale = 10f64.powi(cfg.scale_exp);
	let mut level = if cfg.signed {
		(r.unit() - 0.5) * 4.0 * scale
	} else {
		(50.0 + r.unit() * 100.0) * scale
	};
	if cfg.integer {
		level = level.round();
	}
	let sigma = if cfg.integer { 3.0 } else { scale * (0.2 + r.unit() * 2.0) };
	let mut x = level;
	let letters: Vec<f64> = {
		let k = 3 + r.usize_below(4);
		let mut l: Vec<f64> = (0..k).map(|_| (r.below(7) as f64 - 3.0) * sigma).collect();
		if cfg.signed || r.chance(0.3) {
			l.push(0.0);
			l.push(-0.0);
		}
		l
	};
	let emit = |out: &mut Vec<f64>, x: f64, cfg: &FeedCfg| {
		let mut y = if cfg.integer { x.round() } else { x };
		if !cfg.signed && y <= 0.0 && !cfg.integer {
			y = y.abs() + f64::MIN_POSITIVE.max(1e-300);
		}
		if !y.is_finite() {
			y = 1.0;
		}
		out.push(vt(y));
	};
	while out.len() < len {
		let g = *r.pick(&cfg.regimes);
		let n = seg_len(r, cfg).min(len - out.len());
		match g {
			Regime::Walk => {
				for _ in 0..n {
					x += sigma * r.normal();
					emit(&mut out, x, cfg);
				}
			}
			Regime::ZigZag => {
				let d = sigma * (0.5 + r.unit());
				for i in 0..n {
					x += if i % 2 == 0 { d } else { -d * (0.9 + 0.2 * r.unit()) };
					emit(&mut out, x, cfg);
				}
			}
			Regime::MonoUp | Regime::MonoDown => {
				let s = if g == Regime::MonoUp { 1.0 } else { -1.0 };
				for _ in 0..n {
					x += s * sigma * r.unit() * 0.5;
					emit(&mut out, x, cfg);
				}
			}
			Regime::Stuck => {
				let n = if r.chance(0.5) {
					(cfg.window + 2 + r.usize_below(cfg.window + 3)).min(len - out.len())
				} else {
					n
				};
				let last = out.last().copied().unwrap_or(vt(x));
				for _ in 0..n {
					out.push(last);
				}
				if n > cfg.window {
					bump(fc, "feed:stuck_longer_than_window");
				} else {
					bump(fc, "feed:stuck");
				}
			}
			Regime::Plateau => {
				let grid = sigma * (1.0 + r.below(4) as f64);
				for _ in 0..n {
					x += sigma * r.normal();
					emit(&mut out, (x / grid).round() * grid, cfg);
				}
				bump(fc, "feed:plateau_ties");
			}
			Regime::Alphabet => {
				for _ in 0..n {
					let l = *r.pick(&letters);
					let y = if cfg.signed { l } else { level + l.abs() };
					emit(&mut out, y, cfg);
				}
				bump(fc, "feed:alphabet_ties");
			}
			Regime::Spike => {
				let k = 10f64.powi(r.range(1, if cfg!(feature = "value_type_f32") { 3 } else { 6 }) as i32);
				let y = if r.chance(0.5) { x * k } else { x / k };
				emit(&mut out, y, cfg);
				bump(fc, "feed:spike");
			}
			Regime::ScaleJump => {
				let k = 10f64.powi(r.range(1, 3) as i32);
				if r.chance(0.5) && x.abs() < if cfg!(feature = "value_type_f32") { 1e5 } else { 1e12 } * scale {
					x *= k;
				} else {
					x /= k;
				}
				emit(&mut out, x, cfg);
				bump(fc, "feed:scale_jump");
			}
			Regime::Gap => {
				x += sigma * 8.0 * (r.unit() - 0.5);
				emit(&mut out, x, cfg);
				bump(fc, "feed:gap");
			}
			Regime::TickGrid => {
				let mut tick = tick_of(x.abs().max(sigma), r);
				if cfg.integer {
					tick = tick.max(1.0);
				}
				let mut k = (x / tick).round();
				for _ in 0..n {
					k += r.below(7) as f64 - 3.0;
					if !cfg.signed && k < 1.0 {
						k = 1.0;
					}
					out.push(vt(k * tick));
				}
				x = k * tick;
				bump(fc, "feed:tick_grid");
			}
			Regime::ZeroVolume | Regime::Degenerate => {
				// meaningful for candles only; for raw values: exact zeros
				if cfg.signed {
					for _ in 0..n.min(3) {
						out.push(if r.chance(0.5) { 0.0 } else { -0.0 });
					}
					bump(fc, "feed:signed_zeros");
				} else {
					x += sigma * r.normal();
					emit(&mut out, x, cfg);
				}
			}
		}
	}
	out.truncate(len);
	out
}

/// valid candles: low <= open, close <= high, prices > 0 finite, volume >= 0 finite
pub fn candles(r: &mut Rng, len: usize, cfg: &FeedCfg, fc: &mut FaultCount) -> Vec<[f64; 5]> {
	let mut out: Vec<[f64; 5]> = Vec::with_capacity(len);
	let scale = 10f64.powi(cfg.scale_exp.clamp(-6, 6));
	let mut c = (50.0 + r.unit() * 100.0) * scale;
	let vol_scale = 10f64.powi(r.range(0, 6) as i32);
	let sigma = 0.002 + r.unit() * 0.03;
	let mk = |r: &mut Rng, prev_close: f64, close: f64, gap: f64, zero_vol: bool| -> [f64; 5] {
		let open = (prev_close * (1.0 + gap)).max(f64::MIN_POSITIVE);
		let hi = open.max(close) * (1.0 + sigma * r.unit());
		let lo = open.min(close) * (1.0 - (sigma * r.unit()).min(0.5));
		let v = if zero_vol { 0.0 } else { vol_scale * (0.1 + r.unit() * 2.0) };
		let (o, h, l, cc, v) = (vt(open), vt(hi), vt(lo), vt(close), vt(v));
		// rounding to ValueType is monotone, ordering survives; guard the degenerate cases anyway
		[o, h.max(o).max(cc), l.min(o).min(cc), cc, v]
	};
	let grid_of = |c: f64, r: &mut Rng| c * sigma * (1.0 + r.below(3) as f64);
	while out.len() < len {
		let g = *r.pick(&cfg.regimes);
		let n = seg_len(r, cfg).min(len - out.len());
		match g {
			Regime::Walk => {
				for _ in 0..n {
					let p = c;
					c *= (sigma * r.normal()).exp();
					out.push(mk(r, p, c, 0.0, false));
				}
			}
			Regime::ZigZag => {
				for i in 0..n {
					let p = c;
					c *= if i % 2 == 0 { 1.0 + sigma } else { 1.0 / (1.0 + sigma * (0.9 + 0.2 * r.unit())) };
					out.push(mk(r, p, c, 0.0, false));
				}
			}
			Regime::MonoUp | Regime::MonoDown => {
				for _ in 0..n {
					let p = c;
					let d = sigma * r.unit() * 0.5;
					c *= if g == Regime::MonoUp { 1.0 + d } else { 1.0 - d.min(0.5) };
					out.push(mk(r, p, c, 0.0, false));
				}
			}
			Regime::Stuck => {
				let n = if r.chance(0.5) {
					(cfg.window + 2 + r.usize_below(cfg.window + 3)).min(len - out.len())
				} else {
					n
				};
				let last = out.last().copied().unwrap_or_else(|| {
					let x = vt(c);
					[x, x, x, x, vt(vol_scale)]
				});
				let variant = r.below(3);
				for _ in 0..n {
					out.push(match variant {
						0 => last,                                                          // whole candle repeated
						1 => [last[0], last[1], last[2], last[3], vt(vol_scale * r.unit())], // prices stuck, volume moves
						_ => [last[3], last[3], last[3], last[3], last[4]],                 // degenerate bar at the close
					});
				}
				c = out.last().unwrap()[3];
				if n > cfg.window {
					bump(fc, "feed:stuck_longer_than_window");
				} else {
					bump(fc, "feed:stuck");
				}
			}
			Regime::Plateau | Regime::Alphabet => {
				let grid = grid_of(c, r).max(f64::MIN_POSITIVE);
				for _ in 0..n {
					let p = c;
					c *= (sigma * r.normal()).exp();
					let snapped = ((c / grid).round() * grid).max(grid);
					let q = |x: f64| vt(((x / grid).round() * grid).max(grid));
					let k = mk(r, p, snapped, 0.0, false);
					let (o, h, l, cc) = (q(k[0]), q(k[1]), q(k[2]), q(k[3]));
					out.push([o, h.max(o).max(cc), l.min(o).min(cc), cc, k[4]]);
					c = cc;
				}
				bump(fc, "feed:plateau_ties");
			}
			Regime::Spike => {
				let p = c;
				let k = 10f64.powi(r.range(1, 3) as i32);
				let s = if r.chance(0.5) { c * k } else { c / k };
				out.push(mk(r, p, s, 0.0, false));
				// and back
				if out.len() < len {
					out.push(mk(r, s, c, 0.0, false));
				}
				bump(fc, "feed:spike");
			}
			Regime::ScaleJump => {
				let p = c;
				let k = 10f64.powi(r.range(1, 2) as i32);
				if r.chance(0.5) && c < 1e9 * scale {
					c *= k;
				} else if c > 1e-9 * scale {
					c /= k;
				}
				out.push(mk(r, p, c, 0.0, false));
				bump(fc, "feed:scale_jump");
			}
			Regime::Gap => {
				let p = c;
				let gap = sigma * 6.0 * (r.unit() - 0.5);
				c = p * (1.0 + gap) * (sigma * r.normal()).exp();
				out.push(mk(r, p, c, gap, false));
				bump(fc, "feed:gap");
			}
			Regime::ZeroVolume => {
				for _ in 0..n {
					let p = c;
					c *= (sigma * r.normal()).exp();
					out.push(mk(r, p, c, 0.0, true));
				}
				bump(fc, "feed:zero_volume");
			}
			Regime::TickGrid => {
				let tick = tick_of(c, r);
				let mut k = (c / tick).round().max(8.0);
				let vq = vol_scale * 0.25;
				for _ in 0..n {
					let o = (k + if r.chance(0.15) { r.below(5) as f64 - 2.0 } else { 0.0 }).max(4.0);
					let cl = (o + r.below(7) as f64 - 3.0).max(4.0);
					let h = o.max(cl) + r.below(3) as f64;
					let l = (o.min(cl) - r.below(3) as f64).max(1.0);
					let v = vq * r.below(6) as f64;
					out.push([vt(o * tick), vt(h * tick), vt(l * tick), vt(cl * tick), vt(v)]);
					k = cl;
				}
				c = k * tick;
				bump(fc, "feed:tick_grid");
			}
			Regime::Degenerate => {
				for _ in 0..n.min(4) {
					let x = vt(c);
					out.push([x, x, x, x, vt(vol_scale * r.unit())]);
				}
				bump(fc, "feed:degenerate_bar");
			}
		}
		// (a long walk may drift by many orders of magnitude; beyond 1e+-60 products of prices and volumes overflow, which
		// is not a rounding effect)
		if !(c.is_finite() && c > 1e-60 && c < 1e60) {
			c = 100.0 * scale;
		}
	}
	out.truncate(len);
	out
}

/// a power-of-two tick that puts the level `c` at a few hundred to a few thousand ticks (exact in single precision too)
fn tick_of(c: f64, r: &mut Rng) -> f64 {
	let per = 64.0 * (1 + r.below(16)) as f64;
	let t = (c.abs().max(f64::MIN_POSITIVE * 1e20) / per).log2().floor();
	2f64.powi(t.clamp(-900.0, 900.0) as i32)
}

pub fn valid_candle(c: &[f64; 5]) -> bool {
	let [o, h, l, cl, v] = *c;
	l <= o && l <= cl && o <= h && cl <= h && l > 0.0 && h.is_finite() && v >= 0.0 && v.is_finite()
}

pub fn to_in_vals(v: &[f64]) -> Vec<In> {
	v.iter().map(|x| In::v(*x)).collect()
}
pub fn to_in_candles(v: &[[f64; 5]]) -> Vec<In> {
	v.iter().map(|c| In::c(c[0], c[1], c[2], c[3], c[4])).collect()
}

/// a long one-sided stream: geometric drift with a small periodic ripple (local peaks and troughs every few bars, no
/// change of the overall direction) - the regime that advances consecutive-bar / same-side counters for thousands of steps
pub fn trend_ripple(r: &mut Rng, len: usize) -> Vec<[f64; 5]> {
	trend_ripple_v(r, len, None, None)
}

/// the same with the direction and/or the strictly monotone variant (no ripple: not a single bar against the trend) fixed
pub fn trend_ripple_v(r: &mut Rng, len: usize, up: Option<bool>, monotone: Option<bool>) -> Vec<[f64; 5]> {
	let up_drawn = r.chance(0.5);
	let up = up.unwrap_or(up_drawn);
	let g = 10f64.powf(-(2.5 + r.unit() * 2.5)) * if up { 1.0 } else { -1.0 };
	let period = 3 + r.usize_below(5);
	let amp = r.unit() * 3.0;
	let mono_drawn = r.chance(0.25);
	let a = g.abs() * period as f64 * amp * if monotone.unwrap_or(mono_drawn) { 0.0 } else { 1.0 };
	let p0 = 50.0 + r.unit() * 100.0;
	let vol = 10f64.powi(r.range(0, 5) as i32);
	let mut out = Vec::with_capacity(len);
	let mut base = p0;
	let mut prev = p0;
	for t in 0..len {
		base *= 1.0 + g;
		if !(base > 1e-12 && base < 1e12) {
			base = p0;
		}
		let ph = (t % period) as f64 / period as f64;
		let tri = 1.0 - (2.0 * ph - 1.0).abs();
		let close = base * (1.0 + a * tri);
		let open = prev;
		let hi = open.max(close) * (1.0 + g.abs() * 0.1);
		let lo = open.min(close) * (1.0 - g.abs() * 0.1);
		prev = close;
		let (o, h, l, c) = (vt(open), vt(hi), vt(lo), vt(close));
		out.push([o, h.max(o).max(c), l.min(o).min(c), c, vt(vol * (0.5 + r.unit()))]);
	}
	out
}

/// volatile stretches separated by very long exactly flat ones (hundreds to thousands of identical bars): the regime in
/// which exponentially weighted state decays by many orders of magnitude
pub fn long_flats(r: &mut Rng, len: usize) -> Vec<[f64; 5]> {
	let mut out: Vec<[f64; 5]> = Vec::with_capacity(len);
	let mut fc = FaultCount::new();
	let cfg = FeedCfg {
		regimes: vec![Regime::Walk, Regime::ZigZag, Regime::Gap],
		scale_exp: 0,
		signed: false,
		integer: false,
		seg: 40,
		window: 10,
	};
	while out.len() < len {
		let v = 60 + r.usize_below(300);
		let mut part = candles(r, v, &cfg, &mut fc);
		if let Some(last) = out.last() {
			// continue at the level the flat stretch ended on
			let k = last[3] / part[0][0];
			for c in part.iter_mut() {
				for x in c.iter_mut().take(4) {
					*x = vt(*x * k);
				}
			}
		}
		out.extend(part);
		let very_long = r.chance(0.3);
		let flat = 400 + r.usize_below(if very_long { 12_000 } else { 2_500 });
		let last = *out.last().unwrap();
		let variant = r.below(3);
		for _ in 0..flat {
			out.push(match variant {
				0 => last,
				1 => [last[3], last[3], last[3], last[3], last[4]],
				_ => [last[0], last[1], last[2], last[3], vt(last[4] * (0.5 + r.unit()))],
			});
		}
	}
	out.truncate(len);
	out
}
