//! C01 — Window is a faithful fixed-capacity FIFO. Op-history simulation against a VecDeque model, including
//! rebuild (restart) through every export path and corrupt-rebuild through the storage-fault injector.

use crate::common::*;
use crate::rng::Rng;
use crate::simfmt::{self, Value};
use serde::de::DeserializeOwned;
use serde::{Deserialize, Serialize};
use serde_json::json;
use std::collections::VecDeque;
use std::fmt::Debug;
use yata::core::{PeriodType, ValueType, Window};

pub const PMAX: u64 = PeriodType::MAX as u64;

#[derive(Clone, Debug, Serialize, Deserialize, PartialEq)]
pub enum Ctor {
	New { n: u64 },
	Empty,
	Default,
	FromVec { n: u64 },
	FromBox { n: u64 },
	FromParts { n: u64, idx: u64 },
}

#[derive(Clone, Debug, Serialize, Deserialize, PartialEq)]
pub enum Corrupt {
	IndexEqLen,
	IndexPlus(u64),
	IndexMax,
	/// buffer length forced to PeriodType::MAX + d - 1 for d in 0..=2 (MAX-1, MAX, MAX+1)
	BufLenAroundMax(u64),
	EmptyBuf(u64),
	WideIndex,
	DropField(u8),
	DupField(u8),
	RetagIndex,
	FromPartsIdxGeLen(u64),
	FromPartsLenMax,
	Truncate(u32),
	BitFlip(u32),
}

#[derive(Clone, Debug, Serialize, Deserialize, PartialEq)]
pub enum WOp {
	Push,
	Get(u64),
	Index(u64),
	Newest,
	Oldest,
	Len,
	Slice,
	/// dir: 0 iter(), 1 iter_rev(), 2 IntoIterator for &Window; consume k items; ask: see `ITER_ASKS`
	Iter { dir: u8, k: u64, ask: u8 },
	/// how: 0 from_parts(exported), 1 Deserialize(tree), 2 bytes codec, 3 JSON, 4 clone, 5 clone_from into a used window
	Rebuild(u8),
	Corrupt(Corrupt),
	Sweep,
	SerFail(u32),
}

pub const ITER_ASKS: [&str; 13] = [
	"size_hint", "len", "count", "last", "next", "collect_rest", "fused_next_x2", "fold_rest", "for_each_rest", "nth", "skip_collect", "step_by", "reduce_last",
];

#[derive(Clone, Debug, Serialize, Deserialize)]
pub struct Case {
	pub elem: String,
	pub ctor: Ctor,
	pub ops: Vec<WOp>,
}

pub trait Elem: Clone + PartialEq + Debug + Serialize + DeserializeOwned + 'static {
	const NAME: &'static str;
	fn label(i: u32) -> Self;
}
impl Elem for u32 {
	const NAME: &'static str = "u32";
	fn label(i: u32) -> Self {
		i
	}
}
impl Elem for String {
	const NAME: &'static str = "String";
	fn label(i: u32) -> Self {
		format!("L{i}")
	}
}
impl Elem for ValueType {
	const NAME: &'static str = "ValueType";
	fn label(i: u32) -> Self {
		i as ValueType + 0.5
	}
}
impl Elem for (ValueType, ValueType) {
	const NAME: &'static str = "pair";
	fn label(i: u32) -> Self {
		(i as ValueType, -(i as ValueType))
	}
}

pub struct C01;

fn cap_class(n: u64) -> &'static str {
	match n {
		0 => "0",
		1 => "1",
		2 => "2",
		3..=8 => "3-8",
		9..=127 => "9-127",
		128..=253 => "128-253",
		254 => "254",
		_ => ">254",
	}
}

/// every observer of `w` must read the sequence `m` (oldest..newest)
fn sweep<T: Elem>(w: &Window<T>, m: &VecDeque<T>) -> Result<(), (String, String)> {
	let n = m.len();
	let fail = |p: &str, d: String| Err((p.to_string(), d));
	match guarded(|| w.len()) {
		Ok(l) if l as usize == n => {}
		other => return fail("len", format!("len() = {other:?}, model {n}")),
	}
	match guarded(|| w.is_empty()) {
		Ok(e) if e == (n == 0) => {}
		other => return fail("is_empty", format!("is_empty() = {other:?}, model len {n}")),
	}
	// as_slice / as_ref: multiset only
	for (name, got) in [
		("as_slice", guarded(|| w.as_slice().to_vec())),
		("as_ref", guarded(|| AsRef::<[T]>::as_ref(w).to_vec())),
	] {
		match got {
			Ok(s) => {
				if s.len() != n || !same_multiset(&s, m) {
					return fail(name, format!("{name}() = {s:?} is not a permutation of the model {m:?}"));
				}
			}
			Err(p) => return fail(name, format!("{name}() panicked: {p}")),
		}
	}
	if n > 0 || !cfg!(feature = "unsafe_performance") {
		for (name, got, want) in [
			("newest", guarded(|| w.newest().clone()), m.back()),
			("oldest", guarded(|| w.oldest().clone()), m.front()),
		] {
			match (got, want) {
				(Ok(g), Some(x)) if &g == x => {}
				(Err(_), None) => {} // empty window: a panic is accepted, an element is not
				(g, x) => return fail(name, format!("{name}() = {g:?}, model {x:?}")),
			}
		}
	}
	for i in 0..(n as u64 + 2) {
		if i > PMAX {
			break;
		}
		let want = if (i as usize) < n { Some(&m[n - 1 - i as usize]) } else { None };
		match guarded(|| w.get(i as PeriodType).cloned()) {
			Ok(g) if g.as_ref() == want => {}
			g => return fail("get", format!("get({i}) = {g:?}, model {want:?}")),
		}
		match (guarded(|| w[i as PeriodType].clone()), want) {
			(Ok(g), Some(x)) if &g == x => {}
			(Err(_), None) => {}
			(g, x) => return fail("index", format!("w[{i}] = {g:?}, model {x:?}")),
		}
	}
	let fwd: Vec<T> = m.iter().rev().cloned().collect();
	let rev: Vec<T> = m.iter().cloned().collect();
	match guarded(|| w.iter().cloned().collect::<Vec<T>>()) {
		Ok(v) if v == fwd => {}
		v => return fail("iter", format!("iter() yields {v:?}, model {fwd:?}")),
	}
	match guarded(|| w.iter_rev().cloned().collect::<Vec<T>>()) {
		Ok(v) if v == rev => {}
		v => return fail("iter_rev", format!("iter_rev() yields {v:?}, model {rev:?}")),
	}
	Ok(())
}

fn same_multiset<T: PartialEq + Clone>(a: &[T], m: &VecDeque<T>) -> bool {
	let mut rest: Vec<T> = m.iter().cloned().collect();
	for x in a {
		match rest.iter().position(|y| y == x) {
			Some(p) => {
				rest.swap_remove(p);
			}
			None => return false,
		}
	}
	rest.is_empty()
}

/// serialized form -> (buf, index)
fn parts_of<T: Elem>(v: &Value) -> Option<(Vec<T>, u64)> {
	let buf = v.field("buf")?;
	let idx = v.field("index")?.as_u64()?;
	let items: Vec<T> = simfmt::from_value(buf).ok()?;
	Some((items, idx))
}

/// buffer lengths for the oversized-buffer fault: MAX-1 (still valid), MAX, MAX+1, MAX+2 and lengths whose low bits
/// (length mod (MAX+1)) exceed the stored index, so that a narrowing cast of the length would let them through
pub fn oversize_len(d: u64, idx: u64) -> u64 {
	// only used where PeriodType::MAX <= 255; saturating so that the wide builds compile
	let m1 = PMAX.saturating_add(1);
	match d {
		0 => PMAX - 1,
		1 => PMAX,
		2 => m1,
		3 => PMAX.saturating_add(2),
		4 => m1.saturating_add(idx + 1),
		5 => m1.saturating_mul(2).saturating_add(idx + 1),
		6 => m1.saturating_mul(3).saturating_add(idx + 7),
		_ => m1.saturating_add(PMAX - 1),
	}
}

/// the (buffer length, oldest-index) pairs `Window`'s Deserialize documents as acceptable
fn wellformed(len: u64, idx: u64) -> bool {
	(idx < len && len < PMAX) || (len == 0 && idx == 0)
}

fn model_from_parts<T: Clone>(buf: &[T], idx: usize) -> VecDeque<T> {
	let mut m = VecDeque::with_capacity(buf.len());
	for j in 0..buf.len() {
		m.push_back(buf[(idx + j) % buf.len()].clone());
	}
	m
}

fn set_index(v: &mut Value, idx: u64) {
	if let Some(f) = v.field_mut("index") {
		*f = match f {
			Value::U8(_) if idx <= 255 => Value::U8(idx as u8),
			Value::U16(_) if idx <= 65535 => Value::U16(idx as u16),
			Value::U32(_) if idx <= u64::from(u32::MAX) => Value::U32(idx as u32),
			_ => Value::U64(idx),
		};
	}
}

fn iter_ask<'a, T: Elem, I>(mut it: I, k: u64, ask: u8, expect_rest: &[T]) -> Result<(), String>
where
	I: Iterator<Item = &'a T> + ExactSizeIterator,
{
	// consume k (already validated against the model by the caller through expect_rest construction)
	for _ in 0..k {
		it.next();
	}
	let r = expect_rest.len();
	match ask {
		0 => {
			let h = it.size_hint();
			if h != (r, Some(r)) {
				return Err(format!("size_hint() = {h:?} after consuming {k}, {r} remain"));
			}
		}
		1 => {
			let l = it.len();
			if l != r {
				return Err(format!("len() = {l} after consuming {k}, {r} remain"));
			}
		}
		2 => {
			let c = it.count();
			if c != r {
				return Err(format!("count() = {c} after consuming {k}, {r} remain"));
			}
		}
		3 => {
			let l = it.last().cloned();
			let want = expect_rest.last().cloned();
			if l != want {
				return Err(format!(
					"last() = {l:?} after consuming {k}, remaining sequence {expect_rest:?} ends with {want:?}"
				));
			}
		}
		4 => {
			let x = it.next().cloned();
			let want = expect_rest.first().cloned();
			if x != want {
				return Err(format!("next() = {x:?} after consuming {k}, model {want:?}"));
			}
		}
		5 => {
			let rest: Vec<T> = it.cloned().collect();
			if rest != expect_rest {
				return Err(format!("rest after {k} = {rest:?}, model {expect_rest:?}"));
			}
		}
		// the adaptors and consumers a specialised iterator is tempted to override: they must honour what was consumed
		7 => {
			let rest: Vec<T> = it.fold(Vec::new(), |mut v, x| {
				v.push(x.clone());
				v
			});
			if rest != expect_rest {
				return Err(format!("fold over the rest after {k} visits {rest:?}, model {expect_rest:?}"));
			}
		}
		8 => {
			let mut rest: Vec<T> = Vec::new();
			it.for_each(|x| rest.push(x.clone()));
			if rest != expect_rest {
				return Err(format!("for_each over the rest after {k} visits {rest:?}, model {expect_rest:?}"));
			}
		}
		9 => {
			let j = ((k as usize) * 7 + 1) % (r + 2);
			let x = it.nth(j).cloned();
			let want = expect_rest.get(j).cloned();
			if x != want {
				return Err(format!("nth({j}) after consuming {k} = {x:?}, model {want:?}"));
			}
			let y = it.next().cloned();
			let want = expect_rest.get(j + 1).cloned();
			if y != want {
				return Err(format!("next() after nth({j}) after consuming {k} = {y:?}, model {want:?}"));
			}
		}
		10 => {
			let j = ((k as usize) * 5 + 2) % (r + 2);
			let rest: Vec<T> = it.skip(j).cloned().collect();
			let want: Vec<T> = expect_rest.iter().skip(j).cloned().collect();
			if rest != want {
				return Err(format!("skip({j}) after consuming {k} yields {rest:?}, model {want:?}"));
			}
		}
		11 => {
			let st = 1 + (k as usize) % 3;
			let rest: Vec<T> = it.step_by(st).cloned().collect();
			let want: Vec<T> = expect_rest.iter().step_by(st).cloned().collect();
			if rest != want {
				return Err(format!("step_by({st}) after consuming {k} yields {rest:?}, model {want:?}"));
			}
		}
		12 => {
			let l = it.reduce(|_, b| b).cloned();
			let want = expect_rest.last().cloned();
			if l != want {
				return Err(format!("reduce(keep the later) after consuming {k} = {l:?}, model {want:?}"));
			}
		}
		_ => {
			for _ in 0..r {
				it.next();
			}
			let a = it.next().cloned();
			let b = it.next().cloned();
			if a.is_some() || b.is_some() {
				return Err(format!("exhausted iterator yields {a:?},{b:?}"));
			}
		}
	}
	Ok(())
}

pub fn run_case<T: Elem>(case: &Case, stats: &mut Stats) -> Vec<Violation> {
	let mut out = Vec::new();
	let mut next_label: u32 = 1;
	let mut fresh = || {
		let l = T::label(next_label);
		next_label += 1;
		l
	};
	let viol = |pred: &str, step: usize, detail: String, n: usize| {
		Violation::new("C01", &format!("Window<{}>", T::NAME), pred, step, detail).tag("capacity", n)
	};
	// construct
	let (mut w, mut m): (Window<T>, VecDeque<T>) = match &case.ctor {
		Ctor::New { n } => {
			let v = T::label(0);
			(Window::new(*n as PeriodType, v.clone()), std::iter::repeat(v).take(*n as usize).collect())
		}
		Ctor::Empty => (Window::empty(), VecDeque::new()),
		Ctor::Default => (Window::default(), VecDeque::new()),
		Ctor::FromVec { n } => {
			let v: Vec<T> = (0..*n).map(|_| fresh()).collect();
			(Window::from(v.clone()), v.into_iter().collect())
		}
		Ctor::FromBox { n } => {
			let v: Vec<T> = (0..*n).map(|_| fresh()).collect();
			(Window::from(v.clone().into_boxed_slice()), v.into_iter().collect())
		}
		Ctor::FromParts { n, idx } => {
			let v: Vec<T> = (0..*n).map(|_| fresh()).collect();
			(
				Window::from_parts(v.clone().into_boxed_slice(), *idx as PeriodType),
				model_from_parts(&v, *idx as usize),
			)
		}
	};
	let n = m.len();
	let mut pushes = 0u64;
	stats.suts.insert(format!("Window<{}>", T::NAME));
	stats.log(n as u64);
	for (step, op) in case.ops.iter().enumerate() {
		stats.ops += 1;
		let phase = if n == 0 {
			"-"
		} else {
			match pushes % n as u64 {
				0 => "0",
				1 => "1",
				x if x == n as u64 - 1 => "n-1",
				_ => "mid",
			}
		};
		let fill = if pushes == 0 {
			"fresh"
		} else if pushes < n as u64 {
			"warmup"
		} else if pushes == n as u64 {
			"full"
		} else {
			"steady"
		};
		let opk = match op {
			WOp::Iter { dir, ask, .. } => format!("iter{dir}:{}", ITER_ASKS[(*ask as usize).min(ITER_ASKS.len() - 1)]),
			WOp::Rebuild(h) => format!("rebuild{h}"),
			WOp::Corrupt(c) => format!("corrupt:{}", format!("{c:?}").split('(').next().unwrap_or("")),
			o => format!("{o:?}").split('(').next().unwrap_or("").to_string(),
		};
		stats.cover(format!("{}|{phase}|{fill}|{opk}|{}", cap_class(n as u64), T::NAME));
		match op {
			WOp::Push => {
				let l = fresh();
				if n == 0 {
					if cfg!(feature = "unsafe_performance") {
						continue;
					}
					stats.probe("push_on_empty");
					if let Ok(x) = guarded(|| w.push(l.clone())) {
						out.push(viol(
							"empty_window_yields_element",
							step,
							format!("push on an empty window returned {x:?}"),
							n,
						));
					}
					continue;
				}
				let want = m.pop_front().unwrap();
				m.push_back(l.clone());
				pushes += 1;
				stats.ticks += 1;
				match guarded(|| w.push(l)) {
					Ok(g) if g == want => {}
					g => {
						out.push(viol(
							"push_returns_oldest",
							step,
							format!("push #{pushes} returned {g:?}, the value pushed {n} steps before is {want:?}"),
							n,
						));
						return out;
					}
				}
			}
			WOp::Get(i) => {
				let want = if (*i as usize) < n { Some(&m[n - 1 - *i as usize]) } else { None };
				if *i as usize >= n {
					stats.probe("out_of_range_index");
				}
				match guarded(|| w.get(*i as PeriodType).cloned()) {
					Ok(g) if g.as_ref() == want => {}
					g => out.push(viol("get", step, format!("get({i}) = {g:?}, model {want:?} (pushes {pushes})"), n)),
				}
			}
			WOp::Index(i) => {
				let want = if (*i as usize) < n { Some(&m[n - 1 - *i as usize]) } else { None };
				if *i as usize >= n {
					stats.probe("out_of_range_index");
				}
				match (guarded(|| w[*i as PeriodType].clone()), want) {
					(Ok(g), Some(x)) if &g == x => {}
					(Err(_), None) => {}
					(g, x) => out.push(viol("index", step, format!("w[{i}] = {g:?}, model {x:?} (pushes {pushes})"), n)),
				}
			}
			WOp::Newest | WOp::Oldest => {
				if n == 0 && cfg!(feature = "unsafe_performance") {
					continue;
				}
				let (name, got, want) = if matches!(op, WOp::Newest) {
					("newest", guarded(|| w.newest().clone()), m.back())
				} else {
					("oldest", guarded(|| w.oldest().clone()), m.front())
				};
				match (got, want) {
					(Ok(g), Some(x)) if &g == x => {}
					(Err(_), None) => stats.probe("observer_on_empty_panics"),
					(g, x) => out.push(viol(name, step, format!("{name}() = {g:?}, model {x:?}"), n)),
				}
			}
			WOp::Len => match guarded(|| (w.len(), w.is_empty())) {
				Ok((l, e)) if l as usize == n && e == (n == 0) => {}
				g => out.push(viol("len", step, format!("(len, is_empty) = {g:?}, model {n}"), n)),
			},
			WOp::Slice => match guarded(|| w.as_slice().to_vec()) {
				Ok(s) if s.len() == n && same_multiset(&s, &m) => {}
				g => out.push(viol("as_slice", step, format!("as_slice() = {g:?}, model {m:?}"), n)),
			},
			WOp::Iter { dir, k, ask } => {
				let k = (*k).min(n as u64 + 1);
				let seq: Vec<T> = if *dir == 1 {
					m.iter().cloned().collect()
				} else {
					m.iter().rev().cloned().collect()
				};
				let rest: Vec<T> = seq.iter().skip(k as usize).cloned().collect();
				if rest.is_empty() {
					stats.probe("iterator_exhausted_before_ask");
				} else if k > 0 {
					stats.probe("iterator_partially_consumed");
				}
				if n == 0 && *ask == 3 && cfg!(feature = "unsafe_performance") {
					continue;
				}
				let r = guarded(|| match dir {
					0 => iter_ask(w.iter(), k, *ask, &rest),
					1 => iter_ask(w.iter_rev(), k, *ask, &rest),
					_ => iter_ask((&w).into_iter(), k, *ask, &rest),
				});
				let name = ["iter", "iter_rev", "into_iter"][(*dir as usize).min(2)];
				let askn = ITER_ASKS[(*ask as usize).min(ITER_ASKS.len() - 1)];
				match r {
					Ok(Ok(())) => {}
					Ok(Err(d)) => out.push(
						viol(&format!("{name}.{askn}"), step, format!("{name}(): {d}"), n)
							.tag("remaining", rest.len())
							.tag("ask", askn),
					),
					Err(p) => {
						// an empty window may panic instead of yielding an element
						if !(n == 0 && *ask == 3) {
							out.push(viol(
								&format!("{name}.{askn}"),
								step,
								format!("{name}() then {askn} panicked: {p}"),
								n,
							));
						} else {
							stats.probe("observer_on_empty_panics");
						}
					}
				}
			}
			WOp::Sweep => {
				if let Err((p, d)) = sweep(&w, &m) {
					out.push(viol(&p, step, format!("{d} (pushes {pushes})"), n));
				}
			}
			WOp::Rebuild(how) => {
				stats.fault("restart_rebuild");
				let tree = match simfmt::to_value(&w) {
					Ok(t) => t,
					Err(e) => {
						out.push(viol("serialize", step, format!("serialize failed: {e}"), n));
						continue;
					}
				};
				let rebuilt: Result<Window<T>, String> = match how {
					0 => {
						let Some((buf, idx)) = parts_of::<T>(&tree) else {
							out.push(viol("export_shape", step, format!("unexpected serialized form {}", tree.render()), n));
							continue;
						};
						if buf.is_empty() {
							stats.probe("from_parts_empty_skipped");
							continue; // documented panic of from_parts; nothing to rebuild directly
						}
						guarded(|| Window::from_parts(buf.into_boxed_slice(), idx as PeriodType))
					}
					1 => simfmt::from_value::<Window<T>>(&tree).map_err(|e| e.0),
					2 => {
						let bytes = simfmt::encode(&tree);
						match simfmt::decode(&bytes) {
							Ok(t2) => {
								if t2 != tree {
									eprintln!("harness error: byte codec does not round-trip");
									std::process::exit(2);
								}
								simfmt::from_value::<Window<T>>(&t2).map_err(|e| e.0)
							}
							Err(e) => {
								eprintln!("harness error: byte codec failed on own output: {e}");
								std::process::exit(2);
							}
						}
					}
					3 => match serde_json::to_string(&w) {
						Ok(s) => serde_json::from_str::<Window<T>>(&s).map_err(|e| e.to_string()),
						Err(e) => Err(format!("json serialization failed: {e}")),
					},
					4 => Ok(w.clone()),
					_ => {
						// clone_from into an existing window of the same capacity at another rotation phase (and, for
						// every third step, of another capacity): the destination must become the source
						let cap = if step % 3 == 0 && (n as u64 + 1) < PMAX { (n + 1) as PeriodType } else { n as PeriodType };
						let dst = guarded(|| {
							let mut d: Window<T> = Window::new(cap, T::label(0));
							for j in 0..(if cap == 0 { 0 } else { step % (n.max(1) + 2) }) {
								d.push(T::label(900_000 + j as u32));
							}
							d.clone_from(&w);
							d
						});
						dst
					}
				};
				match rebuilt {
					Ok(w2) => {
						if let Err((p, d)) = sweep(&w2, &m) {
							out.push(
								viol(
									&format!("rebuilt.{p}"),
									step,
									format!("after rebuild (path {how}, pushes {pushes}): {d}"),
									n,
								)
								.tag("path", how),
							);
							return out;
						}
						w = w2;
					}
					Err(e) => {
						out.push(
							viol(
								"rebuild_own_export_rejected",
								step,
								format!(
									"window of capacity {n} after {pushes} pushes: its own export {} was rejected on path {how}: {e}",
									tree.render()
								),
								n,
							)
							.tag("path", how),
						);
					}
				}
			}
			WOp::SerFail(k) => {
				let probe = simfmt::SerCtl::new(None);
				let _ = simfmt::to_value_ctl(&w, &probe);
				let calls = probe.calls.get();
				let at = (*k as usize) % calls.max(1);
				let ctl = simfmt::SerCtl::new(Some(at));
				stats.fault("ser_error@k");
				match guarded(|| simfmt::to_value_ctl(&w, &ctl)) {
					Ok(Err(e)) if e.0 == simfmt::INJECTED => {}
					other => out.push(viol(
						"ser_error_propagates",
						step,
						format!("serializer failed at call {at}/{calls}, serialize returned {other:?}"),
						n,
					)),
				}
			}
			WOp::Corrupt(c) => {
				let Ok(mut tree) = simfmt::to_value(&w) else { continue };
				let Some((buf, idx)) = parts_of::<T>(&tree) else { continue };
				let kind = format!("{c:?}");
				let kind = kind.split('(').next().unwrap_or("").to_string();
				stats.fault(&format!("storage:{kind}"));
				// direct from_parts misuse
				match c {
					Corrupt::FromPartsIdxGeLen(d) => {
						let bad = (buf.len() as u64 + d).min(PMAX);
						if bad < buf.len() as u64 {
							continue;
						}
						let b2 = buf.clone();
						if let Ok(w2) = guarded(move || Window::from_parts(b2.into_boxed_slice(), bad as PeriodType)) {
							// accepted although documented to panic: must at least not read a wrong slot
							let r = guarded(|| (w2.oldest().clone(), w2.len()));
							out.push(viol(
								"from_parts_accepts_bad_index",
								step,
								format!("from_parts(len {}, index {bad}) returned a window; oldest/len = {r:?}", buf.len()),
								n,
							));
						}
						continue;
					}
					Corrupt::FromPartsLenMax => {
						if PMAX > 255 {
							continue;
						}
						let big: Vec<T> = (0..PMAX).map(|i| T::label(i as u32)).collect();
						if guarded(move || Window::from_parts(big.into_boxed_slice(), 0)).is_ok() {
							out.push(viol(
								"from_parts_accepts_oversized",
								step,
								format!("from_parts accepted a slice of length PeriodType::MAX = {PMAX}"),
								n,
							));
						}
						continue;
					}
					_ => {}
				}
				// structural / byte damage of the serialized form
				let mut damaged_parts: Option<(Vec<T>, u64)> = None;
				let mut bytes_mode: Option<Vec<u8>> = None;
				match c {
					Corrupt::IndexEqLen => {
						set_index(&mut tree, buf.len() as u64);
					}
					Corrupt::IndexPlus(d) => {
						set_index(&mut tree, buf.len() as u64 + d);
					}
					Corrupt::IndexMax => {
						set_index(&mut tree, PMAX);
					}
					Corrupt::BufLenAroundMax(d) => {
						if PMAX > 255 {
							continue;
						}
						let target = oversize_len(*d, idx) as usize;
						let mut b = buf.clone();
						while b.len() < target {
							b.push(T::label(1_000_000 + b.len() as u32));
						}
						b.truncate(target);
						let bt = simfmt::to_value(&b).unwrap();
						*tree.field_mut("buf").unwrap() = bt;
						if target as u64 <= PMAX - 1 && idx < target as u64 {
							damaged_parts = Some((b, idx));
						}
					}
					Corrupt::EmptyBuf(i) => {
						*tree.field_mut("buf").unwrap() = Value::Seq(vec![]);
						set_index(&mut tree, *i);
						if *i == 0 {
							damaged_parts = Some((vec![], 0));
						}
					}
					Corrupt::WideIndex => {
						if PMAX == u64::MAX {
							continue;
						}
						*tree.field_mut("index").unwrap() = Value::U64(PMAX + 1 + idx);
					}
					Corrupt::DropField(i) => {
						if let Value::Struct(_, f) = &mut tree {
							f.remove((*i as usize) % 2);
						}
					}
					Corrupt::DupField(i) => {
						if let Value::Struct(_, f) = &mut tree {
							let x = f[(*i as usize) % 2].clone();
							f.push(x);
						}
					}
					Corrupt::RetagIndex => {
						*tree.field_mut("index").unwrap() = Value::Str(format!("{idx}"));
					}
					Corrupt::Truncate(at) => {
						let mut b = simfmt::encode(&tree);
						let cut = (*at as usize) % b.len().max(1);
						b.truncate(cut);
						bytes_mode = Some(b);
					}
					Corrupt::BitFlip(at) => {
						let mut b = simfmt::encode(&tree);
						let bit = (*at as usize) % (b.len() * 8).max(1);
						b[bit / 8] ^= 1 << (bit % 8);
						bytes_mode = Some(b);
					}
					_ => {}
				}
				let tree2 = match bytes_mode {
					Some(b) => match simfmt::decode(&b) {
						Ok(t) => {
							// a flipped bit may leave a well-formed (buf, index) pair (names are not part of the
							// contract): then that pair is the model
							if let Some((b2, i2)) = parts_of::<T>(&t) {
								if wellformed(b2.len() as u64, i2) {
									if format!("{b2:?}").contains("NaN") {
										// NaN != NaN: the model comparison is not meaningful; only "no panic" is demanded
										stats.probe("bitflip_made_nan");
										let _ = guarded(|| simfmt::from_value::<Window<T>>(&t)).map_err(|p| {
											out.push(viol("corrupt_snapshot_panics", step, format!("Deserialize panicked: {p}"), n))
										});
										continue;
									}
									damaged_parts = Some((b2, i2));
								}
							}
							t
						}
						Err(_) => {
							stats.probe("damage_caught_by_codec");
							continue;
						}
					},
					None => {
						// structural damage may still leave a well-formed pair (e.g. index := len on capacity 0 is the
						// empty window's own form): then that pair is the model
						if damaged_parts.is_none() && !matches!(c, Corrupt::DupField(_)) {
							if let Some((b2, i2)) = parts_of::<T>(&tree) {
								if wellformed(b2.len() as u64, i2) {
									damaged_parts = Some((b2, i2));
								}
							}
						}
						tree
					}
				};
				match guarded(|| simfmt::from_value::<Window<T>>(&tree2)) {
					Err(p) => out.push(
						viol(
							"corrupt_snapshot_panics",
							step,
							format!("Deserialize panicked on damaged window data ({c:?}): {p}"),
							n,
						)
						.tag("fault", &kind),
					),
					Ok(Err(_)) => stats.probe("corrupt_rejected_with_err"),
					Ok(Ok(w2)) => match damaged_parts {
						Some((b, i)) => {
							stats.probe("corrupt_left_wellformed_pair");
							let m2 = model_from_parts(&b, i as usize);
							if let Err((p, d)) = sweep(&w2, &m2) {
								out.push(
									viol(
										&format!("corrupt_accepted_inconsistent.{p}"),
										step,
										format!("damaged data ({c:?}) accepted, but: {d}"),
										n,
									)
									.tag("fault", &kind),
								);
							}
						}
						None => {
							let r = guarded(|| (w2.len(), w2.as_slice().len()));
							out.push(
								viol(
									"corrupt_snapshot_accepted",
									step,
									format!("malformed window data ({c:?}) was accepted: (len, slice len) = {r:?}"),
									n,
								)
								.tag("fault", &kind),
							);
						}
					},
				}
			}
		}
		if out.len() > 4 {
			break;
		}
	}
	stats.log(pushes);
	stats.log(out.len() as u64);
	out
}

fn gen_ops(r: &mut Rng, n: u64, tier: Tier, faults: bool) -> Vec<WOp> {
	let mut ops = Vec::new();
	let total_push = r.range(0, 3 * n + 5);
	let dense = tier == Tier::Thorough || n <= 8;
	// observers cost O(n) each: beyond a few hundred elements their rate is scaled down so that a run stays O(n)
	let obs_rate = if n > 300 { (120.0 / n as f64).min(0.9) } else if dense { 0.9 } else { 0.25 };
	let mut pushed = 0;
	loop {
		// observers at this state
		let k_obs = if r.chance(obs_rate) { r.range(1, 4) } else { 0 };
		for _ in 0..k_obs {
			let pick_i = |r: &mut Rng| match r.below(6) {
				0 => 0,
				1 => n.saturating_sub(1),
				2 => n,
				3 => (n + 1).min(PMAX),
				4 => PMAX,
				_ => r.below(n + 2).min(PMAX),
			};
			ops.push(match r.below(12) {
				0 => WOp::Get(pick_i(r)),
				1 => WOp::Index(pick_i(r)),
				2 => WOp::Newest,
				3 => WOp::Oldest,
				4 => WOp::Len,
				5 => WOp::Slice,
				6 if n <= 64 || (tier == Tier::Thorough && n <= 300) => WOp::Sweep,
				_ => {
					let k = match r.below(5) {
						0 => 0,
						1 => n,
						2 => n + 1,
						3 => n.saturating_sub(1),
						_ => r.below(n + 1),
					};
					WOp::Iter {
						dir: r.below(3) as u8,
						k,
						ask: r.below(13) as u8,
					}
				}
			});
		}
		// rebuilds and storage faults cost O(n) each as well
		let big = if n > 300 { 60.0 / n as f64 } else { 1.0 };
		if faults && r.chance(big * if dense { 0.25 } else { 0.06 }) {
			ops.push(WOp::Rebuild(r.below(6) as u8));
		}
		if faults && r.chance(big * 0.05) {
			ops.push(WOp::SerFail(r.next_u64() as u32));
		}
		if faults && r.chance(big * if dense { 0.15 } else { 0.04 }) {
			ops.push(WOp::Corrupt(match r.below(13) {
				0 => Corrupt::IndexEqLen,
				1 => Corrupt::IndexPlus(r.range(1, 5)),
				2 => Corrupt::IndexMax,
				3 => Corrupt::BufLenAroundMax(r.below(8)),
				4 => Corrupt::EmptyBuf(r.below(2)),
				5 => Corrupt::WideIndex,
				6 => Corrupt::DropField(r.below(2) as u8),
				7 => Corrupt::DupField(r.below(2) as u8),
				8 => Corrupt::RetagIndex,
				9 => Corrupt::FromPartsIdxGeLen(r.below(3)),
				10 => Corrupt::FromPartsLenMax,
				11 => Corrupt::Truncate(r.next_u64() as u32),
				_ => Corrupt::BitFlip(r.next_u64() as u32),
			}));
		}
		if pushed >= total_push {
			break;
		}
		ops.push(WOp::Push);
		pushed += 1;
	}
	ops
}

impl Check for C01 {
	type Case = Case;
	fn id(&self) -> &'static str {
		"C01"
	}
	fn runs(&self, tier: Tier) -> u64 {
		match tier {
			Tier::Quick => 40_000,
			Tier::Thorough => 400_000,
		}
	}
	fn generate(&self, root: &Rng, i: u64, tier: Tier) -> Case {
		let run = root.sub_i("run", i);
		let mut rc = run.sub("config");
		let maxcap = (PMAX - 1).min(if tier == Tier::Thorough { 4094 } else { 254 });
		// capacity: stratified over all capacities in thorough, boundary-biased in quick
		let n = if tier == Tier::Thorough && maxcap > 254 {
			// wide PeriodType: every capacity up to 254 as in the default build; one run in eight beyond (up to 4094)
			if i % 8 == 0 {
				255 + (i / 8) % (maxcap - 254)
			} else {
				i % 255
			}
		} else if tier == Tier::Thorough {
			i % (maxcap + 1)
		} else {
			const B: [u64; 13] = [0, 1, 2, 3, 4, 5, 7, 8, 16, 127, 128, 253, 254];
			if rc.chance(0.7) {
				B[(i % 13) as usize].min(maxcap)
			} else {
				rc.below(maxcap + 1)
			}
		};
		let elem = ["u32", "u32", "String", "ValueType", "pair"][rc.usize_below(5)].to_string();
		let ctor = match rc.below(10) {
			0 if n == 0 => Ctor::Empty,
			1 if n == 0 => Ctor::Default,
			2 if n > 0 => Ctor::FromVec { n },
			3 if n > 0 => Ctor::FromBox { n },
			4 | 5 if n > 0 => Ctor::FromParts { n, idx: rc.below(n) },
			_ => Ctor::New { n },
		};
		// fault-free configuration: every 4th run has no rebuild / corruption at all
		let faults = i % 4 != 3;
		let mut ro = run.sub("ops");
		let ops = gen_ops(&mut ro, n, tier, faults);
		Case { elem, ctor, ops }
	}
	fn execute(&self, case: &Case, stats: &mut Stats) -> Vec<Violation> {
		match case.elem.as_str() {
			"u32" => run_case::<u32>(case, stats),
			"String" => run_case::<String>(case, stats),
			"ValueType" => run_case::<ValueType>(case, stats),
			_ => run_case::<(ValueType, ValueType)>(case, stats),
		}
	}
	fn shrink(&self, case: &Case) -> Vec<Case> {
		let mut v = Vec::new();
		let nops = case.ops.len();
		// drop halves, then single ops (from the end first)
		if nops > 1 {
			let mut c = case.clone();
			c.ops.truncate(nops / 2);
			v.push(c);
			let mut c = case.clone();
			c.ops.drain(..nops / 2);
			v.push(c);
		}
		for i in (0..nops).rev().take(200) {
			let mut c = case.clone();
			c.ops.remove(i);
			v.push(c);
		}
		// simpler constructor / smaller capacity / simpler element
		let n = match case.ctor {
			Ctor::New { n } | Ctor::FromVec { n } | Ctor::FromBox { n } | Ctor::FromParts { n, .. } => n,
			_ => 0,
		};
		if !matches!(case.ctor, Ctor::New { .. }) {
			let mut c = case.clone();
			c.ctor = Ctor::New { n };
			v.push(c);
		}
		for smaller in [n / 2, n.saturating_sub(1)] {
			if smaller < n {
				let mut c = case.clone();
				c.ctor = match &case.ctor {
					Ctor::FromParts { idx, .. } if smaller > 0 => Ctor::FromParts {
						n: smaller,
						idx: (*idx).min(smaller - 1),
					},
					Ctor::FromVec { .. } if smaller > 0 => Ctor::FromVec { n: smaller },
					Ctor::FromBox { .. } if smaller > 0 => Ctor::FromBox { n: smaller },
					_ => Ctor::New { n: smaller },
				};
				v.push(c);
			}
		}
		if case.elem != "u32" {
			let mut c = case.clone();
			c.elem = "u32".into();
			v.push(c);
		}
		v
	}
	fn rule(&self) -> String {
		"One evaluation = one seeded operation history on a real yata::core::Window<T> (constructor, pushes, observers, \
		 iterator splits, rebuilds through from_parts / Deserialize / byte codec / JSON / clone, corrupt-rebuilds) checked op by op \
		 against a VecDeque model. Coverage tuple = (capacity class, ring phase, fill class, op kind, element type); \
		 distinct_nontrivial counts distinct tuples among runs in which at least one rebuild or storage fault fired. \
		 Thorough stratifies the capacity over every value 0..=min(PeriodType::MAX-1, 4094)."
			.into()
	}
	fn assumptions(&self) -> Vec<String> {
		vec![
			"the container is parametric: distinct labels stand for all element values".into(),
			"documented panics (push/newest/oldest on an empty window, from_parts misuse, Index out of range) are accepted; an element is not".into(),
		]
	}
	fn components(&self) -> serde_json::Value {
		json!({"real": ["yata::core::Window<T> incl. iterators, Index, From impls, Serialize/Deserialize"],
			"stub": ["VecDeque reference model", "simfmt serializer/deserializer + byte codec", "serde_json as second wire format"]})
	}
}
