//! C05 (indicator raw values equal the documented formulas) and C06 (signals fire exactly under their documented
//! conditions): per-step refinement of every modelled indicator against its reference model (reduced fit).

use crate::cfgmut;
use crate::common::*;
use crate::ieng;
use crate::meng::{self, MCase};
use crate::refi::{self, Sig};
use crate::refm;
use crate::rng::Rng;
use crate::sut::{self, Out, T_RESULT};
use serde_json::json;

pub struct IndCheck {
	pub id: &'static str,
}

/// value slots documented as ratios on [0,1] or [-1,1]
fn unit_interval(name: &str, slot: usize) -> bool {
	match name {
		"Aroon" | "StochasticOscillator" => slot < 2,
		"RelativeStrengthIndex" | "ChandeMomentumOscillator" | "ChaikinMoneyFlow" | "TrendStrengthIndex" => slot == 0,
		"MoneyFlowIndex" => slot == 1,
		"TrueStrengthIndex" => slot < 2,
		"SMIErgodicIndicator" => slot < 3,
		"AverageDirectionalIndex" => slot < 3,
		_ => false,
	}
}

pub fn modelled() -> Vec<&'static str> {
	let c0 = refm::tc_exact(&[100.0, 101.0, 99.0, 100.5, 1000.0]);
	ieng::indicators()
		.iter()
		.filter(|i| refi::make_refind(i.name, &(i.default_cfg)(), &c0).is_some())
		.map(|i| i.name)
		.collect()
}

/// step-by-step refinement of a real indicator run against its reference model: values within their tracked bounds
/// (`values`), signals in three-valued logic (`signals`); violations carry the property id `prop` (C05 / C06, or C07 for
/// the long streams)
pub fn refine(prop: &'static str, case: &MCase, stats: &mut Stats, values: bool, signals: bool) -> Vec<Violation> {
	let mut vs = Vec::new();
	let Some(cfg) = &case.cfg else { return vs };
	let Some(f) = meng::factory(case) else { return vs };
	for (k, v) in &case.feed_faults {
		stats.fault_n(k, *v);
	}
	let name = case.sut.as_str();
	let c0 = refm::tc_exact(&case.stream[0].candle_f64());
	let Some(mut r) = refi::make_refind(name, cfg, &c0) else { return vs };
	let a = match meng::run_a(&f, &case.stream) {
		Ok(a) => a,
		Err((step, msg)) => {
			// a panic of an accepted instance belongs to C10 - except on the long streams of C07, where it is the way a
			// counter that reaches its capacity shows in a build with overflow checks
			// (the NaN assertions of SMM / Highest / Lowest behind a zero denominator are the C10 finding, whatever the length)
			if prop == "C07" && step < case.stream.len() && !msg.contains("cannot operate with NAN") {
				vs.push(Violation::new(prop, name, "panic_after_long_prefix", step, format!("next() panicked at tick {step}: {msg}")));
			} else {
				stats.probe("run_a_failed_skipped (belongs to C10)");
			}
			return vs;
		}
	};
	stats.suts.insert(name.to_string());
	stats.ticks += a.len() as u64;
	let kinds = cfgmut::ma_kinds_in(cfg);
	let regime = if case.feed_faults.is_empty() { "calm" } else { "faulty" };
	stats.cover(format!("{name}|{}|{}|{regime}", kinds.first().cloned().unwrap_or_default(), meng::len_class(case.params.len())));
		let mut sig_checked = 0u64;
	let mut sig_exempt = 0u64;
	// after a slot has been reported it is not checked any further (one report per slot and run)
	let mut dead_v = [false; 4];
	let mut dead_s = [false; 4];
	let mut use_layout = false;
	let layout = r.implemented_layout();
	let debug = std::env::var("VERIF_DEBUG").is_ok();
	for (t, o) in a.iter().enumerate() {
		let c = refm::tc_exact(&case.stream[t].candle_f64());
		let (rv, rs) = r.next(&c);
		stats.log(o.hash());
		if debug {
			eprintln!("t={t} candle={:?}\n   impl {o:?}\n   ref values {rv:?}\n   ref signals {rs:?}", case.stream[t].candle_f64());
		}
		if o.tag != T_RESULT || o.w[0] as usize != rv.len() || o.w[1] as usize != rs.len() {
			vs.push(Violation::new(prop, name, "shape", t, format!("result {o:?}; the reference has {} values and {} signals", rv.len(), rs.len())));
			return vs;
		}
		if values {
			for i in 0..rv.len() {
				if dead_v[i.min(3)] {
					continue;
				}
				let y = o.f(2 + i);
				// documented slot i; after the layout deviation has been reported the implemented layout is followed
				let want = if use_layout { rv[layout.as_ref().map_or(i, |l| l.0[i])] } else { rv[i] };
				if want.und() {
					stats.exempt += 1;
					continue;
				}
				stats.checked += 1;
				// quantities documented on a unit interval ([0,1] or [-1,1]): the rounding allowance has an absolute
				// floor of a few ulp of 1 (e.g. 1 - N/(P+N) is as good an evaluation as P/(P+N))
				let unit_floor = if unit_interval(name, i) { 16.0 * crate::tracked::U } else { 0.0 };
				if !want.complies(y) && !((y - want.v).abs() <= want.e + unit_floor) {
					if let (false, Some(l)) = (use_layout, layout.as_ref()) {
						if (0..rv.len()).all(|j| rv[l.0[j]].und() || rv[l.0[j]].complies(o.f(2 + j))) {
							use_layout = true;
							vs.push(
								Violation::new("C05", name, "documented_value_layout", t, format!("step {t}: the values are returned in the order {:?} of the documented slots (value {i} = {y:e}, documented slot {i} is {:e})", l.0, want.v))
									.tag("regime", regime),
							);
							break;
						}
					}
					vs.push(
						Violation::new(prop, name, &format!("value_{i}"), t, format!("step {t}: value {i} = {y:e}, documented formula gives {:e} +- {:e} (candle {:?}, cfg {})", want.v, want.e, case.stream[t].candle_f64(), cfg.render()))
							.tag("slot", i)
							.tag("regime", regime),
					);
					dead_v[i.min(3)] = true;
				}
			}
		}
		if signals {
			let nv = o.w[0] as usize;
			for (i, want) in rs.iter().enumerate() {
				if dead_s[i.min(3)] {
					continue;
				}
				let got = o.action(2 + nv + i);
				match want {
					Sig::Unknown => sig_exempt += 1,
					Sig::A(w) => {
						sig_checked += 1;
						let flip = use_layout && layout.as_ref().map_or(false, |l| l.1[i] < 0);
						let w = if flip { -*w } else { *w };
						if w != got {
							if let (false, Some(l)) = (use_layout, layout.as_ref()) {
								if l.1[i] < 0 && -w == got {
									use_layout = true;
									vs.push(
										Violation::new("C06", name, "documented_signal_sign", t, format!("step {t}: signal {i} = {got:?}, the documented rule gives {w:?}: the sign is inverted")).tag("regime", regime),
									);
									continue;
								}
							}
							vs.push(
								Violation::new(prop, name, &format!("signal_{i}"), t, format!("step {t}: signal {i} = {got:?}, documented rule gives {w:?} (values {:?}, cfg {})", (0..nv).map(|j| o.f(2 + j)).collect::<Vec<_>>(), cfg.render()))
									.tag("slot", i)
									.tag("regime", regime),
							);
							dead_s[i.min(3)] = true;
						}
					}
				}
			}
		}
	}
	if signals {
		stats.checked += sig_checked;
		stats.exempt += sig_exempt;
		stats.probe_n(&format!("signals_checked:{name}"), sig_checked);
		stats.probe_n(&format!("signals_exempt:{name}"), sig_exempt);
		if case.feed_faults.is_empty() && sig_checked + sig_exempt > 0 && sig_exempt * 5 > sig_checked + sig_exempt {
			stats.probe("warning:more_than_20%_of_signal_slots_exempt_in_a_fault_free_run");
		}
	}
	vs
}

impl Check for IndCheck {
	type Case = MCase;
	fn id(&self) -> &'static str {
		self.id
	}
	fn runs(&self, tier: Tier) -> u64 {
		let n = modelled().len().max(1) as u64;
		match tier {
			Tier::Quick => n * 1_500,
			Tier::Thorough => n * 30_000,
		}
	}
	fn generate(&self, root: &Rng, i: u64, tier: Tier) -> MCase {
		let names = modelled();
		let name = names[(i % names.len() as u64) as usize];
		let k = i / names.len() as u64;
		let slot = sut::methods().len() + ieng::indicators().iter().position(|x| x.name == name).unwrap();
		let run = root.sub_i("run", i);
		let mut rl = run.sub("len");
		let len = 100 + rl.usize_below(if tier == Tier::Quick { 700 } else { 2900 });
		crate::sched::draw_case(&run, slot, k, tier, len, false).expect("case")
	}
	fn execute(&self, case: &MCase, stats: &mut Stats) -> Vec<Violation> {
		refine(self.id, case, stats, self.id == "C05", self.id == "C06")
	}
	fn shrink(&self, case: &MCase) -> Vec<MCase> {
		meng::shrink_mcase(case, 1)
	}
	fn rule(&self) -> String {
		format!(
			"One evaluation = one seeded (indicator, valid mutated configuration incl. every MA kind and boundary periods, valid candle stream of 100..3000 candles with flats, \
			 gaps, zero-volume bars) run of the real indicator (init + next per candle) refined step by step against a reference indicator built from the reference methods \
			 (tracked numbers): {}. Every fourth run uses the fault-free feed. Coverage tuple = (indicator, first MA kind, period class, calm | faulty). suts_covered lists the \
			 indicators that have a reference model; indicators without one are not claimed by this check. Reduced fit: no schedule is explored, the property has none.",
			if self.id == "C05" {
				"values must lie within the tracked allowance (undefined quotients are exempt and counted)"
			} else {
				"signals in three-valued logic: True/False verdicts must match exactly, Unknown (deciding quantity within its allowance, or a tainted latch) is exempt and counted"
			}
		)
	}
	fn assumptions(&self) -> Vec<String> {
		vec![
			"reference indicators written from the doc comments and linked definitions as summarised in DESIGN.md Appendix B; deviations between doc and code were triaged (DESIGN.md §6)".into(),
			"N-version evidence: agreement of two implementations by different authors".into(),
		]
	}
	fn components(&self) -> serde_json::Value {
		json!({"real": modelled(), "stub": ["valid-candle fault feed", "reference indicators on tracked numbers", "three-valued signal logic"]})
	}
}
