//! C08 — the construction value acts as an infinite constant prehistory: duplicate delivery of the first tick.
//! Replica R0 receives x0, x1, ...; replica Rk receives k extra leading copies of x0 first.

use crate::common::*;
use crate::meng::{self, MCase};
use crate::rng::Rng;
use crate::sut::{self, Out, Params, T_ACTION, T_CANDLE, T_FLOAT, T_INT, T_OPT_CANDLE, T_RENKO, T_RESULT};
use crate::tracked::U;
use serde::{Deserialize, Serialize};
use serde_json::json;

#[derive(Clone, Debug, Serialize, Deserialize)]
pub struct Case {
	pub base: MCase,
	pub ks: Vec<u32>,
}

pub struct C08;

/// drift-free allowance 2 * D_m(0) with the largest method constant: does not grow with the number of copies
fn tol(n: u64, scale: f64) -> f64 {
	2.0 * 1024.0 * U * (n.max(1) as f64) * scale
}

fn exempt(case: &MCase) -> bool {
	match case.sut.as_str() {
		"CollapseTimeframe" => true,
		"Integral" | "ADI" => case.params == Params::Len(0),
		"ChaikinOscillator" => case.cfg.as_ref().and_then(|c| c.field("window")).and_then(|v| v.as_u64()) == Some(0),
		_ => false,
	}
}

fn exact_float(name: &str) -> bool {
	matches!(name, "Highest" | "Lowest" | "HighestLowestDelta" | "SMM" | "Past")
}

/// compare two outputs: floats within `t`, everything else exactly. Returns Err(description) on mismatch and
/// Ok(values_bit_identical)
fn cmp(name: &str, a: &Out, b: &Out, t: f64, skip_signals: bool, sar_first: bool) -> Result<bool, String> {
	cmp_rel(name, a, b, t, 1e-9, skip_signals, sar_first)
}

fn cmp_rel(name: &str, a: &Out, b: &Out, t: f64, rel: f64, skip_signals: bool, sar_first: bool) -> Result<bool, String> {
	if a.tag != b.tag {
		return Err(format!("{a:?} vs {b:?}"));
	}
	// absolute allowance, or 1e-9 relative for quotients that blow up next to a zero denominator (ill-conditioned,
	// DESIGN.md §3.3) - five orders of magnitude tighter than any seeding or formula error
	let fcmp = |x: f64, y: f64, t: f64| -> bool {
		x == y || (x - y).abs() <= t || (x - y).abs() <= rel * x.abs().max(y.abs()) || (x.is_nan() && y.is_nan())
	};
	match a.tag {
		T_FLOAT => {
			let (x, y) = (a.f(0), b.f(0));
			let ok = if exact_float(name) { x == y } else { fcmp(x, y, t) };
			if ok {
				Ok(a.w[0] == b.w[0])
			} else {
				Err(format!("{x:e} vs {y:e} (allowance {:e})", if exact_float(name) { 0.0 } else { t }))
			}
		}
		T_INT | T_ACTION => {
			if a.w[0] == b.w[0] || (a.tag == T_ACTION && a.action(0) == b.action(0)) {
				Ok(true)
			} else {
				Err(format!("{a:?} vs {b:?}"))
			}
		}
		T_CANDLE => {
			for i in 0..5 {
				if !fcmp(a.f(i), b.f(i), t) {
					return Err(format!("candle field {i}: {:e} vs {:e}", a.f(i), b.f(i)));
				}
			}
			Ok(a.w == b.w)
		}
		T_OPT_CANDLE => Ok(true),
		T_RENKO => {
			// the volume (word 3) counts what was consumed: exempt
			if a.w[0] != b.w[0] {
				return Err(format!("brick count {} vs {}", a.w[0], b.w[0]));
			}
			for i in [1usize, 2, 4] {
				if !fcmp(a.f(i), b.f(i), t) {
					return Err(format!("renko word {i}: {:e} vs {:e}", a.f(i), b.f(i)));
				}
			}
			Ok(true)
		}
		T_RESULT => {
			let nv = a.w[0] as usize;
			let ns = a.w[1] as usize;
			if (a.w[0], a.w[1]) != (b.w[0], b.w[1]) {
				return Err(format!("shape {a:?} vs {b:?}"));
			}
			let mut same = true;
			for i in 0..nv {
				if sar_first && i == 1 {
					continue;
				}
				let (x, y) = (a.f(2 + i), b.f(2 + i));
				if !fcmp(x, y, t) {
					return Err(format!("value {i}: {x:e} vs {y:e} (allowance {t:e})"));
				}
				if a.w[2 + i] != b.w[2 + i] || x.is_nan() || (x != 0.0 && x.abs() <= t) {
					// different by rounding, undefined (NaN), or a non-zero value inside the rounding allowance of
					// zero (e.g. the difference of two averages of a constant): detectors fed with it decide on
					// rounding noise (three-valued logic of DESIGN.md §3.4: Unknown => the slot is tainted)
					same = false;
				}
			}
			if !skip_signals && same {
				for i in 0..ns {
					if sar_first {
						continue;
					}
					if a.action(2 + nv + i) != b.action(2 + nv + i) {
						return Err(format!("signal {i}: {:?} vs {:?}", a.action(2 + nv + i), b.action(2 + nv + i)));
					}
				}
			}
			Ok(same)
		}
		_ => Ok(true),
	}
}

/// few-ulp perturbation of an input
pub fn perturb(x: &sut::In) -> sut::In {
	perturb_salt(x, 0)
}

/// the same with another choice of the multipliers (several perturbed replicas sample the conditioning)
pub fn perturb_salt(x: &sut::In, salt: u64) -> sut::In {
	// every field of one input is scaled by the same factor 1 + m * eps, m in {-3..3} \ {0} chosen from a hash of the
	// input: identical inputs stay identical, candles stay valid, differences and sums move by a few ulp
	let h = x.words().iter().fold(0x9E37u64 ^ salt.wrapping_mul(0x9E37_79B9_7F4A_7C15), |h, w| (h ^ w).wrapping_mul(0x0000_0100_0000_01b3).rotate_left(23));
	let m = [-3.0, -2.0, -1.0, 1.0, 2.0, 3.0][(h % 6) as usize];
	let factor = 1.0 + m * (yata::core::ValueType::EPSILON as f64);
	let p = |v: f64| -> f64 {
		if v == 0.0 || !v.is_finite() {
			v
		} else {
			sut::vt(v * factor)
		}
	};
	match x {
		sut::In::V(a) => sut::In::V(Fx(p(a.0))),
		sut::In::P(a, b) => sut::In::P(Fx(p(a.0)), Fx(p(b.0))),
		sut::In::C(c) => sut::In::C([Fx(p(c[0].0)), Fx(p(c[1].0)), Fx(p(c[2].0)), Fx(p(c[3].0)), Fx(p(c[4].0))]),
	}
}

/// conditioning test (DESIGN.md §3.3 without a reference model): the output at `step` is ill-conditioned when a
/// one-ulp perturbation of the inputs already moves it by more than the allowance - then "up to rounding"
/// says nothing about it and the step is exempt
fn ill_conditioned(f: &meng::Factory, name: &str, stream: &[sut::In], orig: &[Out], upto: usize, t: f64) -> bool {
	// three differently perturbed replicas; a movement of a quarter of the allowance already counts: the two replicas
	// under comparison differ by *their* rounding histories, of which a perturbed replica is one more sample
	(0..3u64).any(|salt| ill_conditioned_1(f, name, stream, orig, upto, t / 4.0, 2.5e-10, salt))
}

#[allow(clippy::too_many_arguments)]
fn ill_conditioned_1(f: &meng::Factory, name: &str, stream: &[sut::In], orig: &[Out], upto: usize, t: f64, rel: f64, salt: u64) -> bool {
	let pert: Vec<sut::In> = stream[..=upto.min(stream.len() - 1)].iter().map(|x| perturb_salt(x, salt)).collect();
	let Ok(ap) = meng::run_a(f, &pert) else { return true };
	if std::env::var("VERIF_DEBUG").is_ok() {
		let j = ap.len() - 1;
		eprintln!("conditioning: perturbed[{j}] = {:?}, original[{j}] = {:?}", ap[j], orig[j]);
	}
	// generous: 64 ulp of relative movement of the inputs is still "rounding"
	(0..ap.len()).any(|j| match cmp_rel(name, &ap[j], &orig[j], t, rel, true, false) {
		Ok(_) => false,
		Err(_) => {
			// a relative move of the order of the perturbation itself is well-conditioned
			let moved = |a: &Out, b: &Out| -> bool {
				let n = a.n as usize;
				(0..n).any(|q| {
					let (x, y) = (a.f(q), b.f(q));
					x.is_finite() && y.is_finite() && (x - y).abs() > 64.0 * U * x.abs().max(y.abs()) && (x - y).abs() > t
				})
			};
			moved(&ap[j], &orig[j]) || ap[j].words().iter().zip(orig[j].words()).any(|(a, b)| sut::from_fbits(*a).is_nan() != sut::from_fbits(*b).is_nan())
		}
	})
}

impl Check for C08 {
	type Case = Case;
	fn id(&self) -> &'static str {
		"C08"
	}
	fn runs(&self, tier: Tier) -> u64 {
		let slots = (sut::methods().len() + crate::ieng::indicators().len()) as u64;
		match tier {
			Tier::Quick => slots * 500,
			Tier::Thorough => slots * 6_000,
		}
	}
	fn generate(&self, root: &Rng, i: u64, tier: Tier) -> Case {
		let slots = sut::methods().len() + crate::ieng::indicators().len();
		let slot = (i % slots as u64) as usize;
		let k = i / slots as u64;
		let run = root.sub_i("run", i);
		let mut rl = run.sub("len");
		let len = 20 + rl.usize_below(if tier == Tier::Quick { 150 } else { 400 });
		let mut base = crate::sched::draw_case(&run, slot, k, tier, len, false).expect("case");
		// initial values of any magnitude and sign, zero, both zeros (raw value streams)
		if base.cfg.is_none() && k % 4 == 1 {
			if let sut::In::V(_) = base.stream[0] {
				let specials = [0.0, -0.0, 1.0, -1.0, 1e-9, -3.5e8, 7.25e12, 1e-300, 0.1];
				base.stream[0] = sut::In::v(specials[rl.usize_below(specials.len())]);
			}
		}
		let n = base.params.len().max(1) as u32;
		let mut ks: Vec<u32> = vec![1, 2, n.saturating_sub(1).max(1), n, n + 1, 3 * n, 1000];
		if tier == Tier::Thorough && k % 50 == 7 {
			ks.push(100_000 + rl.below(900_000) as u32);
		} else if tier == Tier::Thorough && k % 10 == 3 {
			ks.push(20_000);
		}
		ks.sort_unstable();
		ks.dedup();
		Case { base, ks }
	}
	fn execute(&self, case: &Case, stats: &mut Stats) -> Vec<Violation> {
		let mut vs = Vec::new();
		let c = &case.base;
		if exempt(c) {
			stats.probe("exempt_cumulative_or_counting");
			return vs;
		}
		let Some(f) = meng::factory(c) else { return vs };
		stats.suts.insert(c.sut.clone());
		let name = c.sut.as_str();
		let n = c.params.len();
		let Ok(a0) = meng::run_a(&f, &c.stream) else {
			stats.probe("run_a_failed_skipped (belongs to C10)");
			return vs;
		};
		// scale of the history for the drift-free allowance: magnitude of the first element for the constancy clause,
		// running maximum of the history for the comparison of later outputs
		let is_candle = c.cfg.is_some() || matches!(c.stream[0], sut::In::C(_));
		let scale_of = |x: &sut::In| -> f64 {
			let w = x.candle_f64();
			let m = w.iter().fold(0.0f64, |m, x| if x.is_finite() { m.max(x.abs()) } else { m });
			if is_candle {
				m.max((w[1] + w[2] + w[3]).abs() / 3.0 * w[4].abs())
			} else {
				let p = x.pair();
				m.max(p.0.abs()).max(p.1.abs()).max((p.0 * p.1).abs())
			}
		};
		let scale = scale_of(&c.stream[0]);
		let running: Vec<f64> = c
			.stream
			.iter()
			.scan(0.0f64, |m, x| {
				*m = m.max(scale_of(x));
				Some(*m)
			})
			.collect();
		let t0 = tol(n, scale);
		let sar = name == "ParabolicSAR";
		for &k in &case.ks {
			let k = k as usize;
			let mut s = Vec::with_capacity(k + c.stream.len());
			s.extend(std::iter::repeat(c.stream[0]).take(k));
			s.extend_from_slice(&c.stream);
			let Ok(ak) = meng::run_a(&f, &s) else {
				vs.push(Violation::new("C08", name, "panic_on_duplicated_first_tick", 0, format!("replica fed {k} extra copies of its first element panicked")).tag("length", n));
				return vs;
			};
			stats.ticks += ak.len() as u64;
			if std::env::var("VERIF_DEBUG").is_ok() {
				for (i, o) in a0.iter().enumerate().take(12) {
					eprintln!("R0[{i}] = {o:?}   R{k}[{}] = {:?}", k + i, ak[k + i]);
				}
				for (j, o) in ak.iter().enumerate().take(k.min(12)) {
					eprintln!("prefix R{k}[{j}] = {o:?}");
				}
			}
			stats.fault("feed:duplicate_first_tick");
			stats.cover(format!(
				"{name}|{}|k={}",
				meng::len_class(n),
				match k as u64 {
					1 => "1".into(),
					2 => "2".into(),
					x if x + 1 == n => "n-1".to_string(),
					x if x == n => "n".into(),
					x if x == n + 1 => "n+1".into(),
					x if x == 3 * n => "3n".into(),
					x if x >= 20_000 => "huge".into(),
					_ => "1000".to_string(),
				}
			));
			// (a) constancy during the duplicated prefix: every output equals the first one
			let first = if sar && ak.len() > 1 { 1 } else { 0 };
			let mut tainted = false;
			for j in first + 1..=k {
				// noise-level movement between consecutive outputs (drift of an accumulator) taints the signals
				if ak[j].tag == T_RESULT {
					let nv = ak[j].w[0] as usize;
					for q in 0..nv {
						let d = (ak[j].f(2 + q) - ak[j - 1].f(2 + q)).abs();
						if d != 0.0 && d <= t0 {
							tainted = true;
						}
					}
				}
				match cmp(name, &ak[j], &ak[first], t0, tainted, false) {
					Ok(same) => {
						stats.checked += 1;
						if !same {
							tainted = true;
						}
					}
					Err(d) => {
						if ill_conditioned(&f, name, &s, &ak, j, t0) {
							stats.probe("ill_conditioned_step_exempt");
							stats.exempt += 1;
							break;
						}
						vs.push(
							Violation::new("C08", name, "constant_input_not_constant_output", j, format!("fed its first element {} times: output {j} differs from output {first}: {d}", k + 1))
								.tag("length", n)
								.tag("kind", if d.starts_with("signal") { "signal" } else { "value" })
								.tag("copies", k),
						);
						return vs;
					}
				}
			}
			// (b) prefix invariance: after the prefix the replica equals R0 at the same stream element
			let mut identical_so_far = !tainted;
			for i in 0..a0.len() {
				let tprefix = 2.0 * tol(n, running[i]);
				match cmp(name, &ak[k + i], &a0[i], tprefix, !identical_so_far, sar && i == 0) {
					Ok(same) => {
						stats.checked += 1;
						if !same {
							identical_so_far = false;
							stats.exempt += 1;
						}
					}
					Err(d) => {
						// Vidya as a configured average amplifies ulp-level differences of a nearly constant input into
						// arbitrary smoothing factors (its Chande factor is |U-D|/(U+D) of changes at rounding level):
						// ill-conditioned by construction (DESIGN.md §3.3), the other 14 MA kinds cover the seeding logic
						let vidya_cfg = c.cfg.as_ref().map_or(false, |g| crate::cfgmut::ma_kinds_in(g).iter().any(|k| k == "vidya"));
						if vidya_cfg || ill_conditioned(&f, name, &s, &ak, k + i, tprefix) {
							stats.probe("ill_conditioned_step_exempt");
							stats.exempt += 1;
							break;
						}
						// how long has the feed been stuck (element identical to its predecessor) up to this element?
						let flat = (1..=i).rev().take_while(|q| c.stream[*q] == c.stream[*q - 1]).count() as u64;
						// trailing run of zero-range candles (high == low) and the window the configuration looks back over
						let zero_range = (0..=i)
							.rev()
							.take_while(|q| {
								let k = c.stream[*q].candle_f64();
								k[1] == k[2]
							})
							.count() as u64;
						let win = c.cfg.as_ref().map_or(n, |g| {
							let f = |name: &str| g.field(name).and_then(crate::simfmt::Value::as_u64);
							match (f("period1"), f("period2")) {
								(Some(a), Some(b)) => a + b - 1,
								_ => crate::cfgmut::max_period_in(g),
							}
						});
						vs.push(
							Violation::new("C08", name, "leading_copies_change_later_outputs", i, format!("with {k} extra leading copies of the first element, the output for stream element {i} differs: {d}"))
								.tag("length", n)
								.tag("kind", if d.starts_with("signal") { "signal" } else { "value" })
								.tag("stuck_feed_covers_window", if flat >= n { "yes" } else { "no" })
								.tag("zero_range_candles_cover_window", if c.cfg.is_some() && zero_range >= win { "yes" } else { "no" })
								.tag("copies", k),
						);
						return vs;
					}
				}
			}
			stats.log(ak.last().map_or(0, Out::hash));
		}
		// WithLastValue relies on this property: covered through the SUT list ("WithLastValue<..>" replicas)
		vs
	}
	fn shrink(&self, case: &Case) -> Vec<Case> {
		let mut v = Vec::new();
		if case.ks.len() > 1 {
			for i in 0..case.ks.len() {
				let mut c = case.clone();
				c.ks = vec![case.ks[i]];
				v.push(c);
			}
		} else if case.ks[0] > 1 {
			for k in [1, case.ks[0] / 2, case.ks[0] - 1] {
				let mut c = case.clone();
				c.ks = vec![k.max(1)];
				v.push(c);
			}
		}
		for b in meng::shrink_mcase(&case.base, 1) {
			v.push(Case { base: b, ks: case.ks.clone() });
		}
		v
	}
	fn rule(&self) -> String {
		"One evaluation = one seeded (SUT, parameters/configuration, stream) with replicas R_k for k in {1, 2, n-1, n, n+1, 3n, 1000} (thorough: also 2*10^4 and \
		 10^5..10^6) that receive k extra leading copies of the first element (duplicate-delivery fault on the first tick). (a) constancy during the duplicated prefix: \
		 exact for selections, indices, signals, shapes; for arithmetic outputs within 2*D(0) = 2048*u*n*S, a bound that does NOT grow with k (free of drift); (b) prefix \
		 invariance: afterwards R_k equals R_0 at the same stream element (signals compared exactly while the values are still bit-identical). Exempt as stated by the \
		 property: windowless Integral/ADI (and ChaikinOscillator with window 0), CollapseTimeframe, Renko volume; Parabolic SAR from the second step. \
		 Coverage tuple = (SUT, length class, k class)."
			.into()
	}
	fn assumptions(&self) -> Vec<String> {
		vec!["drift-free allowance uses the largest frozen method constant (DESIGN.md §3.2) for every arithmetic output".into()]
	}
	fn components(&self) -> serde_json::Value {
		json!({"real": ["every method, wrapper, MA-dispatched instance and indicator"], "stub": ["feed with duplicated first tick", "replica comparison"]})
	}
}
