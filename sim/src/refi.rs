//! Reference models of the indicators (DESIGN.md Appendix B): values as tracked numbers built from the reference
//! methods, signals in three-valued logic (§3.4).

use crate::refm::*;
use crate::simfmt::Value;
use crate::tracked::{Tri, T, U};
use std::collections::VecDeque;
use yata::core::Action;

#[derive(Clone, Copy, Debug, PartialEq)]
pub enum Sig {
	A(Action),
	Unknown,
}

pub trait RefInd {
	fn next(&mut self, c: &TC) -> (Vec<T>, Vec<Sig>);
	/// Known deviation of the implementation from the documented output layout, used only to keep checking the
	/// rest of the indicator after the deviation itself has been reported: (for each implemented value slot the
	/// documented slot it holds, for each signal slot +1 / -1 if the implemented sign is the documented / opposite one)
	fn implemented_layout(&self) -> Option<(Vec<usize>, Vec<i8>)> {
		None
	}
}

// ---- configuration access

pub fn cu(cfg: &Value, name: &str) -> usize {
	cfg.field(name).and_then(Value::as_u64).unwrap_or(0) as usize
}
pub fn cf(cfg: &Value, name: &str) -> f64 {
	cfg.field(name).and_then(Value::as_f64).unwrap_or(f64::NAN)
}
pub fn cb(cfg: &Value, name: &str) -> bool {
	matches!(cfg.field(name), Some(Value::Bool(true)))
}
pub fn csrc(cfg: &Value, name: &str) -> u8 {
	match cfg.field(name) {
		Some(Value::UnitVariant(_, s)) => crate::cfgmut::SOURCE_SERDE_NAMES.iter().position(|x| x == s).unwrap_or(0) as u8,
		_ => 0,
	}
}
pub fn cma(cfg: &Value, name: &str) -> (String, usize) {
	match cfg.field(name) {
		Some(Value::NewtypeVariant(_, k, n)) => (k.clone(), n.as_u64().unwrap_or(0) as usize),
		_ => ("sma".into(), 1),
	}
}

// ---- tracked building blocks

/// moving median over tracked values
#[derive(Clone, Debug)]
pub struct RSmm {
	w: Win,
}
impl RMethod for RSmm {
	fn next(&mut self, x: T) -> T {
		self.w.push(x);
		if self.w.q.iter().any(|x| x.und()) {
			return T::UND;
		}
		let mut v: Vec<f64> = self.w.q.iter().map(|x| x.v).collect();
		let e = self.w.q.iter().map(|x| x.e).fold(0.0, f64::max);
		let m = median_of(&mut v);
		T::new(m, e + U * m.abs())
	}
}

pub fn ref_ma(kind: &str, n: usize, init: T) -> Box<dyn RMethod> {
	match kind {
		"sma" => Box::new(RSma::new(n, init)),
		"wma" => Box::new(RWeighted::wma(n, init)),
		"swma" => Box::new(RWeighted::swma(n, init)),
		"trima" => Box::new(RTrima::new(n, init)),
		"hma" => Box::new(RHma::new(n, init)),
		"lin_reg" => Box::new(RWeighted::linreg(n, init)),
		"ema" => Box::new(REma::ema(n, init)),
		"rma" => Box::new(REma::rma(n, init)),
		"wsma" => Box::new(REma::wsma(n, init)),
		"dma" => Box::new(RExp::new(ExpKind::Dma, n, init)),
		"tma" => Box::new(RExp::new(ExpKind::Tma, n, init)),
		"dema" => Box::new(RExp::new(ExpKind::Dema, n, init)),
		"tema" => Box::new(RExp::new(ExpKind::Tema, n, init)),
		"smm" => Box::new(RSmm { w: Win::new(n, init) }),
		_ => Box::new(RVidya::new(n, init)),
	}
}

/// crossing detectors in three-valued logic; `last` is the previous delta
#[derive(Clone, Debug)]
pub struct RCross {
	last: T,
}
impl RCross {
	pub fn default0() -> Self {
		RCross { last: T::exact(0.0) }
	}
	pub fn new(a: T, b: T) -> Self {
		RCross { last: a.sub(b) }
	}
	/// (above, under)
	pub fn step(&mut self, a: T, b: T) -> (Tri, Tri) {
		let d = if a.e == 0.0 && b.e == 0.0 { T::exact(a.v - b.v) } else { a.sub(b) };
		let z = T::exact(0.0);
		let above = self.last.lt(z).and(d.ge(z));
		let under = self.last.gt(z).and(d.le(z));
		self.last = d;
		(above, under)
	}
	pub fn cross(&mut self, a: T, b: T) -> Sig {
		let (ab, un) = self.step(a, b);
		cross_sig(ab, un)
	}
}
pub fn cross_sig(above: Tri, under: Tri) -> Sig {
	match (above, under) {
		(Tri::True, _) => Sig::A(Action::BUY_ALL),
		(_, Tri::True) => Sig::A(Action::SELL_ALL),
		(Tri::False, Tri::False) => Sig::A(Action::None),
		_ => Sig::Unknown,
	}
}
pub fn tri_sig(t: Tri) -> Sig {
	match t {
		Tri::True => Sig::A(Action::BUY_ALL),
		Tri::False => Sig::A(Action::None),
		Tri::Unknown => Sig::Unknown,
	}
}
/// a - b of two 0/1 (buy-all / none) decisions
pub fn diff_sig(plus: Tri, minus: Tri) -> Sig {
	match (plus, minus) {
		(Tri::Unknown, _) | (_, Tri::Unknown) => Sig::Unknown,
		(Tri::True, Tri::False) => Sig::A(Action::BUY_ALL),
		(Tri::False, Tri::True) => Sig::A(Action::SELL_ALL),
		_ => Sig::A(Action::None),
	}
}
/// Action::from(x) for a tracked x
pub fn action_from(x: T) -> Sig {
	if x.und() {
		return Sig::Unknown;
	}
	let (a, b) = (Action::from(x.v - x.e), Action::from(x.v + x.e));
	if a == b && format!("{a:?}") == format!("{b:?}") {
		Sig::A(a)
	} else {
		Sig::Unknown
	}
}

/// reversal detectors over tracked values (newest wins among equals)
#[derive(Clone, Debug)]
pub struct RRev {
	left: usize,
	right: usize,
	hist: VecDeque<T>,
	t: usize,
}
impl RRev {
	pub fn new(left: usize, right: usize, _init: T) -> Self {
		RRev {
			left,
			right,
			hist: VecDeque::new(),
			t: 0,
		}
	}
	/// (upper fires, lower fires)
	pub fn step(&mut self, x: T) -> (Tri, Tri) {
		self.hist.push_back(x);
		if self.hist.len() > self.left + self.right + 1 {
			self.hist.pop_front();
		}
		let t = self.t;
		self.t += 1;
		if t < self.right {
			return (Tri::False, Tri::False);
		}
		let ci = self.hist.len() - 1 - self.right;
		let c = self.hist[ci];
		let mut up = Tri::True;
		let mut lo = Tri::True;
		for (i, v) in self.hist.iter().enumerate() {
			if i < ci {
				up = up.and(c.ge(*v));
				lo = lo.and(c.le(*v));
			} else if i > ci {
				up = up.and(c.gt(*v));
				lo = lo.and(c.lt(*v));
			}
		}
		(up, lo)
	}
	/// ReversalSignal = lower - upper as i8-like: Some(+1) lower fires, Some(-1) upper fires, Some(0), None = unknown
	pub fn signal(&mut self, x: T) -> Option<i8> {
		let (up, lo) = self.step(x);
		match (lo.known(), up.known()) {
			(Some(l), Some(u)) => Some(i8::from(l) - i8::from(u)),
			_ => None,
		}
	}
}

/// max / min over a window of tracked values
#[derive(Clone, Debug)]
pub struct RExt {
	w: Win,
}
impl RExt {
	pub fn new(n: usize, v: T) -> Self {
		RExt { w: Win::new(n, v) }
	}
	pub fn push(&mut self, x: T) {
		self.w.push(x);
	}
	pub fn max(&self) -> T {
		self.w.q.iter().fold(T::exact(f64::NEG_INFINITY), |m, x| if m.v == f64::NEG_INFINITY { *x } else { m.max(*x) })
	}
	pub fn min(&self) -> T {
		self.w.q.iter().fold(T::exact(f64::INFINITY), |m, x| if m.v == f64::INFINITY { *x } else { m.min(*x) })
	}
}

fn i8sig(v: Option<i8>) -> Sig {
	match v {
		Some(x) if x > 0 => Sig::A(Action::BUY_ALL),
		Some(x) if x < 0 => Sig::A(Action::SELL_ALL),
		Some(_) => Sig::A(Action::None),
		None => Sig::Unknown,
	}
}
fn z() -> T {
	T::exact(0.0)
}

// ---- indicators, part 1

struct Aroon {
	period: usize,
	zone: f64,
	ozp: usize,
	hi: RSel,
	lo: RSel,
	cross: RCross,
	/// consecutive-bar counters; None = unknown (a zone comparison fell inside the rounding allowance)
	up: Option<i64>,
	down: Option<i64>,
}
impl RefInd for Aroon {
	fn next(&mut self, c: &TC) -> (Vec<T>, Vec<Sig>) {
		self.hi.push(c[1].v);
		self.lo.push(c[2].v);
		let (hi, li) = (self.hi.argmax_age() as f64, self.lo.argmin_age() as f64);
		let p = self.period as f64;
		// (period - index) / period: one division; another evaluation (1 - index / period) may differ by an ulp, so
		// comparisons of the two lines with each other and with the zones are three-valued
		let up = T::new((p - hi) / p, 2.0 * U);
		let dn = T::new((p - li) / p, 2.0 * U);
		let s0 = self.cross.cross(up, dn);
		let s1 = match Some(i8::from(hi == 0.0) - i8::from(li == 0.0)) {
			Some(x) if x > 0 => Sig::A(Action::BUY_ALL),
			Some(x) if x < 0 => Sig::A(Action::SELL_ALL),
			_ => Sig::A(Action::None),
		};
		let (zl, zh) = (T::exact(self.zone), T::exact(crate::sut::vt(1.0 - self.zone)));
		let step = |cnt: Option<i64>, cond: Tri| -> Option<i64> {
			match cond {
				Tri::False => Some(0),
				Tri::True => cnt.map(|c| c + 1),
				Tri::Unknown => None,
			}
		};
		self.up = step(self.up, up.ge(zh).and(dn.le(zl)));
		self.down = step(self.down, dn.ge(zh).and(up.le(zl)));
		let s2 = match (self.up, self.down) {
			(Some(u), Some(d)) => {
				let tv = (u - d) as f64 / self.ozp as f64;
				action_from(T::new(tv, 2.0 * U * tv.abs()))
			}
			_ => Sig::Unknown,
		};
		(vec![up, dn], vec![s0, s1, s2])
	}
}

struct Adx {
	zone: f64,
	win: VecDeque<TC>,
	prev_close: T,
	tr_ma: Box<dyn RMethod>,
	pdi: Box<dyn RMethod>,
	mdi: Box<dyn RMethod>,
	ma2: Box<dyn RMethod>,
	desynced: bool,
}
impl RefInd for Adx {
	fn next(&mut self, c: &TC) -> (Vec<T>, Vec<Sig>) {
		let prev = self.win.pop_front().unwrap_or(*c);
		self.win.push_back(*c);
		let atr = self.tr_ma.next(tr_close(c, self.prev_close));
		// the implementation freezes every other update while the averaged true range is exactly zero; when the
		// reference cannot tell (zero inside the error band) the two may take different paths from here on
		let (plus, minus) = if atr.v == 0.0 && atr.e == 0.0 {
			(z(), z())
		} else {
			if atr.v.abs() <= atr.e {
				self.desynced = true;
			}
			self.prev_close = c[3];
			let du = c[1].sub(prev[1]);
			let dd = prev[2].sub(c[2]);
			let pdm = match (du.gt(dd), du.gt(z())) {
				(Tri::True, Tri::True) => du,
				(Tri::False, _) | (_, Tri::False) => z(),
				_ => T::new(du.v / 2.0, du.v.abs() / 2.0 + du.e),
			};
			let mdm = match (dd.gt(du), dd.gt(z())) {
				(Tri::True, Tri::True) => dd,
				(Tri::False, _) | (_, Tri::False) => z(),
				_ => T::new(dd.v / 2.0, dd.v.abs() / 2.0 + dd.e),
			};
			(self.pdi.next(pdm).div(atr), self.mdi.next(mdm).div(atr))
		};
		let s = plus.add(minus);
		let adx = if s.v == 0.0 && s.e == 0.0 { self.ma2.next(z()) } else { self.ma2.next(plus.sub(minus).abs().div(s)) };
		if self.desynced {
			return (vec![T::UND, T::UND, T::UND], vec![Sig::Unknown, Sig::Unknown]);
		}
		let dir = diff_sig(plus.gt(minus), plus.lt(minus));
		let s0 = match (adx.gt(T::exact(self.zone)), dir) {
			(Tri::False, _) => Sig::A(Action::None),
			(Tri::True, d) => d,
			(Tri::Unknown, Sig::A(a)) if a == Action::None => Sig::A(Action::None),
			_ => Sig::Unknown,
		};
		(vec![adx, plus, minus], vec![s0, action_from(plus.sub(minus))])
	}
}

struct Awesome {
	src: u8,
	ma1: Box<dyn RMethod>,
	ma2: Box<dyn RMethod>,
	rev: RRev,
	cross: RCross,
	conseq: u64,
	/// peak counters as intervals [lo, hi] (saturating at 255): an undecided pivot widens the interval instead of
	/// tainting the counter for the rest of a trend
	high_peaks: (u64, u64),
	low_peaks: (u64, u64),
}
impl RefInd for Awesome {
	fn next(&mut self, c: &TC) -> (Vec<T>, Vec<Sig>) {
		let s = source(c, self.src);
		let value = self.ma2.next(s).sub(self.ma1.next(s));
		let rev = self.rev.signal(value);
		// peak counters: an undecided pivot may or may not have been counted
		let bump = |cnt: (u64, u64), hit: Option<bool>| -> (u64, u64) {
			match hit {
				Some(h) => ((cnt.0 + u64::from(h)).min(255), (cnt.1 + u64::from(h)).min(255)),
				None => (cnt.0, (cnt.1 + 1).min(255)),
			}
		};
		self.high_peaks = bump(self.high_peaks, rev.map(|r| r > 0));
		self.low_peaks = bump(self.low_peaks, rev.map(|r| r < 0));
		let decided = |cnt: (u64, u64), conseq: u64| -> Option<bool> {
			if cnt.0 >= conseq {
				Some(true)
			} else if cnt.1 < conseq {
				Some(false)
			} else {
				None
			}
		};
		let s1 = match rev {
			Some(0) => Sig::A(Action::None),
			Some(r) if r < 0 => match decided(self.low_peaks, self.conseq) {
				Some(b) => i8sig(Some(i8::from(b))),
				None => Sig::Unknown,
			},
			Some(_) => match decided(self.high_peaks, self.conseq) {
				Some(b) => i8sig(Some(-i8::from(b))),
				None => Sig::Unknown,
			},
			None => Sig::Unknown,
		};
		let s2 = self.cross.cross(value, z());
		match value.ge(z()) {
			Tri::False => self.high_peaks = (0, 0),
			Tri::Unknown => self.high_peaks = (0, self.high_peaks.1),
			Tri::True => {}
		}
		match value.le(z()) {
			Tri::False => self.low_peaks = (0, 0),
			Tri::Unknown => self.low_peaks = (0, self.low_peaks.1),
			Tri::True => {}
		}
		(vec![value], vec![s1, s2])
	}
}

struct Bollinger {
	src: u8,
	sigma: f64,
	ma: RSma,
	sd: RStDev,
}
impl RefInd for Bollinger {
	fn next(&mut self, c: &TC) -> (Vec<T>, Vec<Sig>) {
		let s = source(c, self.src);
		let mid = self.ma.next(s);
		let sd = self.sd.next_var(s).sqrt();
		let upper = mid.add(sd.scale(self.sigma));
		let lower = mid.sub(sd.scale(self.sigma));
		let range = upper.sub(lower);
		let rel = if range.v == 0.0 && range.e == 0.0 { T::exact(0.5) } else { s.sub(lower).div(range) };
		(vec![upper, mid, lower], vec![action_from(rel.scale(2.0).sub(T::exact(1.0)))])
	}
}

struct Cmf {
	adi: RRunSum,
	vol: RRunSum,
	cross: RCross,
}
impl RefInd for Cmf {
	fn next(&mut self, c: &TC) -> (Vec<T>, Vec<Sig>) {
		let a = self.adi.next(clv(c).mul(c[4]));
		let v = self.vol.next(c[4]);
		let value = a.div(v);
		let s = self.cross.cross(value, z());
		(vec![value], vec![s])
	}
}

struct ChaikinOsc {
	adi: Box<dyn RMethod>,
	ma1: Box<dyn RMethod>,
	ma2: Box<dyn RMethod>,
	cross: RCross,
}
impl RefInd for ChaikinOsc {
	fn next(&mut self, c: &TC) -> (Vec<T>, Vec<Sig>) {
		let a = self.adi.next(clv(c).mul(c[4]));
		let value = self.ma1.next(a).sub(self.ma2.next(a));
		let s = self.cross.cross(value, z());
		(vec![value], vec![s])
	}
}

struct ChandeKroll {
	x: f64,
	src: u8,
	prev_close: T,
	ma: Box<dyn RMethod>,
	h1: RExt,
	l1: RExt,
	h2: RExt,
	l2: RExt,
	prev_short: T,
	prev_long: T,
	above: RCross,
}
impl RefInd for ChandeKroll {
	fn next(&mut self, c: &TC) -> (Vec<T>, Vec<Sig>) {
		let tr = tr_close(c, self.prev_close);
		self.prev_close = c[3];
		let atr = self.ma.next(tr);
		self.h1.push(c[1]);
		self.l1.push(c[2]);
		let phs = self.h1.max().sub(atr.scale(self.x));
		let pls = self.l1.min().add(atr.scale(self.x));
		self.h2.push(phs);
		self.l2.push(pls);
		let (stop_short, stop_long) = (self.h2.max(), self.l2.min());
		let s = source(c, self.src);
		let mid = stop_short.add(stop_long).scale(0.5);
		let size = mid.sub(stop_long);
		let value = if size.v == 0.0 && size.e == 0.0 { z() } else { s.sub(mid).div(size) };
		let diff = stop_short.sub(self.prev_short).add(stop_long.sub(self.prev_long));
		let is_s2 = stop_short.lt(stop_long);
		let (ab, _) = self.above.step(stop_long, stop_short);
		let sign = match (diff.gt(z()), diff.lt(z())) {
			(Tri::True, _) => Some(1i8),
			(_, Tri::True) => Some(-1),
			(Tri::False, Tri::False) => Some(0),
			_ => None,
		};
		let s2 = match (ab.and(is_s2), sign) {
			(Tri::False, _) => Sig::A(Action::None),
			(Tri::True, Some(x)) => i8sig(Some(x)),
			(_, Some(0)) => Sig::A(Action::None),
			_ => Sig::Unknown,
		};
		self.prev_short = stop_short;
		self.prev_long = stop_long;
		(vec![stop_long, s, stop_short], vec![action_from(value), s2])
	}
}

struct CciInd {
	src: u8,
	zone: f64,
	cci: RCci,
	last: T,
	last_signal: Option<i8>,
}
impl RefInd for CciInd {
	fn next(&mut self, c: &TC) -> (Vec<T>, Vec<Sig>) {
		let v = self.cci.next(source(c, self.src)).scale(1.0 / 1.5);
		let zn = T::exact(self.zone);
		let down = v.lt(zn.neg()).and(self.last.ge(zn.neg()));
		let up = v.gt(zn).and(self.last.le(zn));
		let t = match (down.known(), up.known()) {
			(Some(d), Some(u)) => Some(i8::from(d) - i8::from(u)),
			_ => None,
		};
		let signal = match (t, self.last_signal) {
			(Some(0), _) => Some(0),
			(Some(t), Some(l)) => Some(if l != t { t } else { 0 }),
			_ => None,
		};
		self.last = v;
		self.last_signal = signal;
		(vec![v], vec![i8sig(signal)])
	}
}

struct Coppock {
	src: u8,
	roc1: RPast,
	roc2: RPast,
	ma1: Box<dyn RMethod>,
	ma2: Box<dyn RMethod>,
	c1: RCross,
	c2: RCross,
	pivot: RRev,
}
impl RefInd for Coppock {
	fn next(&mut self, c: &TC) -> (Vec<T>, Vec<Sig>) {
		let s = source(c, self.src);
		let p1 = self.roc1.next(s);
		let p2 = self.roc2.next(s);
		let r = s.sub(p1).div(p1).add(s.sub(p2).div(p2));
		let v1 = self.ma1.next(r);
		let v2 = self.ma2.next(v1);
		let s1 = self.c1.cross(v1, z());
		let s2 = i8sig(self.pivot.signal(v1));
		let s3 = self.c2.cross(v1, v2);
		(vec![v1, v2], vec![s1, s2, s3])
	}
}

struct Dpo {
	src: u8,
	ma: Box<dyn RMethod>,
	past: RPast,
}
impl RefInd for Dpo {
	fn next(&mut self, c: &TC) -> (Vec<T>, Vec<Sig>) {
		let s = source(c, self.src);
		let m = self.ma.next(s);
		let left = self.past.next(s);
		(vec![left.sub(m)], vec![])
	}
}

struct Donchian {
	hi: RSel,
	lo: RSel,
}
impl RefInd for Donchian {
	fn next(&mut self, c: &TC) -> (Vec<T>, Vec<Sig>) {
		self.hi.push(c[1].v);
		self.lo.push(c[2].v);
		let (h, l) = (self.hi.max(), self.lo.min());
		let mid = T::exact(h).add(T::exact(l)).scale(0.5);
		let s = i8sig(Some(i8::from(c[1].v >= h) - i8::from(c[2].v <= l)));
		(vec![T::exact(l), mid, T::exact(h)], vec![s])
	}
}

struct Eom {
	ma: Box<dyn RMethod>,
	w: VecDeque<TC>,
	cross: RCross,
}
impl RefInd for Eom {
	fn next(&mut self, c: &TC) -> (Vec<T>, Vec<Sig>) {
		let prev = self.w.pop_front().unwrap_or(*c);
		self.w.push_back(*c);
		let d = c[1].sub(prev[1]).add(c[2].sub(prev[2])).scale(0.5);
		let v = if c[4].v == 0.0 { z() } else { d.mul(c[1].sub(c[2])).div(c[4]) };
		let value = self.ma.next(v);
		let s = self.cross.cross(value, z());
		(vec![value], vec![s])
	}
}

struct Efi {
	src: u8,
	ma: Box<dyn RMethod>,
	w: VecDeque<TC>,
	vol: RRunSum,
	cross: RCross,
}
impl RefInd for Efi {
	fn next(&mut self, c: &TC) -> (Vec<T>, Vec<Sig>) {
		let left = self.w.pop_front().unwrap_or(*c);
		self.w.push_back(*c);
		let vs = self.vol.next(c[4]);
		let r = source(c, self.src).sub(source(&left, self.src)).mul(vs);
		let value = self.ma.next(r);
		let s = self.cross.cross(value, z());
		(vec![value], vec![s])
	}
}

struct Envelopes {
	src: u8,
	src2: u8,
	k: f64,
	ma: Box<dyn RMethod>,
}
impl RefInd for Envelopes {
	fn next(&mut self, c: &TC) -> (Vec<T>, Vec<Sig>) {
		let v = self.ma.next(source(c, self.src));
		let (up, lo) = (v.scale(1.0 + self.k), v.scale(1.0 - self.k));
		let s2 = source(c, self.src2);
		(vec![up, lo, s2], vec![diff_sig(s2.lt(lo), s2.gt(up))])
	}
}

pub fn make_refind(name: &str, cfg: &Value, first: &TC) -> Option<Box<dyn RefInd>> {
	let c0 = *first;
	Some(match name {
		"Aroon" => {
			let p = cu(cfg, "period");
			Box::new(Aroon {
				period: p,
				zone: cf(cfg, "signal_zone"),
				ozp: cu(cfg, "over_zone_period"),
				hi: RSel::new(p, c0[1].v),
				lo: RSel::new(p, c0[2].v),
				cross: RCross::default0(),
				up: Some(0),
				down: Some(0),
			})
		}
		"AverageDirectionalIndex" => {
			let (k1, n1) = cma(cfg, "method1");
			let (k2, n2) = cma(cfg, "method2");
			let p1 = cu(cfg, "period1");
			Box::new(Adx {
				zone: cf(cfg, "zone"),
				win: std::iter::repeat(c0).take(p1).collect(),
				prev_close: c0[3],
				tr_ma: ref_ma(&k1, n1, tr_close(&c0, c0[3])),
				pdi: ref_ma(&k1, n1, z()),
				mdi: ref_ma(&k1, n1, z()),
				ma2: ref_ma(&k2, n2, z()),
				desynced: false,
			})
		}
		"AwesomeOscillator" => {
			let (k1, n1) = cma(cfg, "ma1");
			let (k2, n2) = cma(cfg, "ma2");
			let s = source(&c0, csrc(cfg, "source"));
			Box::new(Awesome {
				src: csrc(cfg, "source"),
				ma1: ref_ma(&k1, n1, s),
				ma2: ref_ma(&k2, n2, s),
				rev: RRev::new(cu(cfg, "left"), cu(cfg, "right"), z()),
				cross: RCross::default0(),
				conseq: cu(cfg, "conseq_peaks") as u64,
				high_peaks: (0, 0),
				low_peaks: (0, 0),
			})
		}
		"BollingerBands" => {
			let n = cu(cfg, "avg_size");
			let s = source(&c0, csrc(cfg, "source"));
			Box::new(Bollinger {
				src: csrc(cfg, "source"),
				sigma: cf(cfg, "sigma"),
				ma: RSma::new(n, s),
				sd: RStDev::new(n, s),
			})
		}
		"ChaikinMoneyFlow" => {
			let n = cu(cfg, "size");
			Box::new(Cmf {
				adi: RRunSum::new(n, clv(&c0).mul(c0[4]), C_INTEGRAL),
				vol: RRunSum::new(n, c0[4], C_INTEGRAL),
				cross: RCross::default0(),
			})
		}
		"ChaikinOscillator" => {
			let (k1, n1) = cma(cfg, "ma1");
			let (k2, n2) = cma(cfg, "ma2");
			let w = cu(cfg, "window");
			let clvv = clv(&c0).mul(c0[4]);
			let (adi, init): (Box<dyn RMethod>, T) = if w == 0 {
				(Box::new(RCumSum::new()), z())
			} else {
				(Box::new(RRunSum::new(w, clvv, C_INTEGRAL)), clvv.scale(w as f64))
			};
			Box::new(ChaikinOsc {
				adi,
				ma1: ref_ma(&k1, n1, init),
				ma2: ref_ma(&k2, n2, init),
				cross: RCross::default0(),
			})
		}
		"ChandeKrollStop" => {
			let (k, n) = cma(cfg, "ma");
			let x = cf(cfg, "x");
			let q = cu(cfg, "q");
			let tr = c0[1].sub(c0[2]);
			let hs = c0[1].sub(tr.scale(x));
			let ls = c0[2].add(tr.scale(x));
			Box::new(ChandeKroll {
				x,
				src: csrc(cfg, "source"),
				prev_close: c0[3],
				ma: ref_ma(&k, n, tr_close(&c0, c0[3])),
				h1: RExt::new(n, c0[1]),
				l1: RExt::new(n, c0[2]),
				h2: RExt::new(q, hs),
				l2: RExt::new(q, ls),
				prev_short: hs,
				prev_long: ls,
				above: RCross::new(ls, hs),
			})
		}
		"CommodityChannelIndex" => Box::new(CciInd {
			src: csrc(cfg, "source"),
			zone: cf(cfg, "zone"),
			cci: RCci::new(cu(cfg, "period"), source(&c0, csrc(cfg, "source"))),
			last: z(),
			last_signal: Some(0),
		}),
		"CoppockCurve" => {
			let (k1, n1) = cma(cfg, "ma1");
			let (k2, n2) = cma(cfg, "s3_ma");
			let s = source(&c0, csrc(cfg, "source"));
			Box::new(Coppock {
				src: csrc(cfg, "source"),
				roc1: RPast::new(cu(cfg, "period2"), s),
				roc2: RPast::new(cu(cfg, "period3"), s),
				ma1: ref_ma(&k1, n1, z()),
				ma2: ref_ma(&k2, n2, z()),
				c1: RCross::default0(),
				c2: RCross::default0(),
				pivot: RRev::new(cu(cfg, "s2_left"), cu(cfg, "s2_right"), z()),
			})
		}
		"DetrendedPriceOscillator" => {
			let (k, n) = cma(cfg, "ma");
			let s = source(&c0, csrc(cfg, "source"));
			Box::new(Dpo {
				src: csrc(cfg, "source"),
				ma: ref_ma(&k, n, s),
				past: RPast::new(n / 2 + 1, s),
			})
		}
		"DonchianChannel" => {
			let p = cu(cfg, "period");
			Box::new(Donchian {
				hi: RSel::new(p, c0[1].v),
				lo: RSel::new(p, c0[2].v),
			})
		}
		"EaseOfMovement" => {
			let (k, n) = cma(cfg, "ma");
			Box::new(Eom {
				ma: ref_ma(&k, n, z()),
				w: std::iter::repeat(c0).take(cu(cfg, "period2")).collect(),
				cross: RCross::default0(),
			})
		}
		"EldersForceIndex" => {
			let (k, n) = cma(cfg, "ma");
			let p2 = cu(cfg, "period2");
			Box::new(Efi {
				src: csrc(cfg, "source"),
				ma: ref_ma(&k, n, z()),
				w: std::iter::repeat(c0).take(p2).collect(),
				vol: RRunSum::new(p2, c0[4], C_INTEGRAL),
				cross: RCross::default0(),
			})
		}
		"Envelopes" => {
			let (k, n) = cma(cfg, "ma");
			Box::new(Envelopes {
				src: csrc(cfg, "source"),
				src2: csrc(cfg, "source2"),
				k: cf(cfg, "k"),
				ma: ref_ma(&k, n, source(&c0, csrc(cfg, "source"))),
			})
		}
		_ => return crate::refi2::make_refind2(name, cfg, first),
	})
}
