//! The serde seam: a self-describing value tree, a complete `Serializer` (value -> tree) with an injectable
//! failure at the k-th call, a `Deserializer` (tree -> value), and a byte codec for the tree so that byte-level
//! storage damage (truncation, bit flips) is possible. Floats travel as bit patterns.

use serde::de::{self, DeserializeSeed, EnumAccess, IntoDeserializer, MapAccess, SeqAccess, VariantAccess, Visitor};
use serde::ser::{self, Serialize};
use std::cell::Cell;
use std::fmt;

#[derive(Clone, Debug, PartialEq, Eq, PartialOrd, Ord, serde::Serialize, serde::Deserialize)]
pub enum Value {
	Unit,
	Bool(bool),
	U8(u8),
	U16(u16),
	U32(u32),
	U64(u64),
	I8(i8),
	I16(i16),
	I32(i32),
	I64(i64),
	F32(u32),
	F64(u64),
	Char(char),
	Str(String),
	Bytes(Vec<u8>),
	None,
	Some(Box<Value>),
	Seq(Vec<Value>),
	Tuple(Vec<Value>),
	Map(Vec<(Value, Value)>),
	Struct(String, Vec<(String, Value)>),
	UnitStruct(String),
	Newtype(String, Box<Value>),
	TupleStruct(String, Vec<Value>),
	UnitVariant(String, String),
	NewtypeVariant(String, String, Box<Value>),
	TupleVariant(String, String, Vec<Value>),
	StructVariant(String, String, Vec<(String, Value)>),
}

impl Value {
	pub fn field(&self, name: &str) -> Option<&Value> {
		match self {
			Value::Struct(_, f) | Value::StructVariant(_, _, f) => f.iter().find(|(k, _)| k == name).map(|(_, v)| v),
			_ => None,
		}
	}
	pub fn field_mut(&mut self, name: &str) -> Option<&mut Value> {
		match self {
			Value::Struct(_, f) | Value::StructVariant(_, _, f) => {
				f.iter_mut().find(|(k, _)| k == name).map(|(_, v)| v)
			}
			_ => None,
		}
	}
	pub fn as_u64(&self) -> Option<u64> {
		match *self {
			Value::U8(x) => Some(u64::from(x)),
			Value::U16(x) => Some(u64::from(x)),
			Value::U32(x) => Some(u64::from(x)),
			Value::U64(x) => Some(x),
			Value::I8(x) if x >= 0 => Some(x as u64),
			Value::I16(x) if x >= 0 => Some(x as u64),
			Value::I32(x) if x >= 0 => Some(x as u64),
			Value::I64(x) if x >= 0 => Some(x as u64),
			_ => None,
		}
	}
	pub fn as_f64(&self) -> Option<f64> {
		match *self {
			Value::F32(b) => Some(f64::from(f32::from_bits(b))),
			Value::F64(b) => Some(f64::from_bits(b)),
			_ => None,
		}
	}
	/// true when some float in the tree is NaN or infinite (JSON cannot carry those)
	pub fn has_nonfinite(&self) -> bool {
		let mut found = false;
		self.walk(&mut |v| {
			if let Some(x) = v.as_f64() {
				if !x.is_finite() {
					found = true;
				}
			}
		});
		found
	}
	pub fn walk(&self, f: &mut dyn FnMut(&Value)) {
		f(self);
		match self {
			Value::Some(b) | Value::Newtype(_, b) | Value::NewtypeVariant(_, _, b) => b.walk(f),
			Value::Seq(v) | Value::Tuple(v) | Value::TupleStruct(_, v) | Value::TupleVariant(_, _, v) => {
				v.iter().for_each(|x| x.walk(f));
			}
			Value::Map(m) => m.iter().for_each(|(k, v)| {
				k.walk(f);
				v.walk(f);
			}),
			Value::Struct(_, m) | Value::StructVariant(_, _, m) => m.iter().for_each(|(_, v)| v.walk(f)),
			_ => {}
		}
	}
	/// visit every node mutably, pre-order; returns number of nodes
	pub fn walk_mut(&mut self, f: &mut dyn FnMut(&mut Value)) {
		f(self);
		match self {
			Value::Some(b) | Value::Newtype(_, b) | Value::NewtypeVariant(_, _, b) => b.walk_mut(f),
			Value::Seq(v) | Value::Tuple(v) | Value::TupleStruct(_, v) | Value::TupleVariant(_, _, v) => {
				v.iter_mut().for_each(|x| x.walk_mut(f));
			}
			Value::Map(m) => m.iter_mut().for_each(|(k, v)| {
				k.walk_mut(f);
				v.walk_mut(f);
			}),
			Value::Struct(_, m) | Value::StructVariant(_, _, m) => m.iter_mut().for_each(|(_, v)| v.walk_mut(f)),
			_ => {}
		}
	}
	pub fn count_nodes(&self) -> usize {
		let mut n = 0;
		self.walk(&mut |_| n += 1);
		n
	}
	/// is this node the serialized form of a `yata::core::Window`?
	pub fn is_window(&self) -> bool {
		matches!(self, Value::Struct(n, f) if n == "Window" && f.len() == 2 && f[0].0 == "buf" && f[1].0 == "index")
	}
	/// compact one-line rendering for logs and evidence samples
	pub fn render(&self) -> String {
		let mut s = String::new();
		self.render_into(&mut s);
		s
	}
	fn render_into(&self, s: &mut String) {
		use std::fmt::Write;
		match self {
			Value::Unit => s.push_str("()"),
			Value::Bool(b) => write!(s, "{b}").unwrap(),
			Value::U8(x) => write!(s, "{x}u8").unwrap(),
			Value::U16(x) => write!(s, "{x}u16").unwrap(),
			Value::U32(x) => write!(s, "{x}u32").unwrap(),
			Value::U64(x) => write!(s, "{x}u64").unwrap(),
			Value::I8(x) => write!(s, "{x}i8").unwrap(),
			Value::I16(x) => write!(s, "{x}i16").unwrap(),
			Value::I32(x) => write!(s, "{x}i32").unwrap(),
			Value::I64(x) => write!(s, "{x}i64").unwrap(),
			Value::F32(b) => write!(s, "{:e}f32", f32::from_bits(*b)).unwrap(),
			Value::F64(b) => write!(s, "{:e}", f64::from_bits(*b)).unwrap(),
			Value::Char(c) => write!(s, "{c:?}").unwrap(),
			Value::Str(x) => write!(s, "{x:?}").unwrap(),
			Value::Bytes(b) => write!(s, "b{b:?}").unwrap(),
			Value::None => s.push_str("None"),
			Value::Some(b) => {
				s.push_str("Some(");
				b.render_into(s);
				s.push(')');
			}
			Value::Seq(v) => render_list(s, "[", v, "]"),
			Value::Tuple(v) => render_list(s, "(", v, ")"),
			Value::Map(m) => {
				s.push('{');
				for (i, (k, v)) in m.iter().enumerate() {
					if i > 0 {
						s.push(',');
					}
					k.render_into(s);
					s.push(':');
					v.render_into(s);
				}
				s.push('}');
			}
			Value::Struct(n, f) => render_fields(s, n, f),
			Value::UnitStruct(n) => s.push_str(n),
			Value::Newtype(n, b) => {
				s.push_str(n);
				s.push('(');
				b.render_into(s);
				s.push(')');
			}
			Value::TupleStruct(n, v) => {
				s.push_str(n);
				render_list(s, "(", v, ")");
			}
			Value::UnitVariant(_, v) => s.push_str(v),
			Value::NewtypeVariant(_, n, b) => {
				s.push_str(n);
				s.push('(');
				b.render_into(s);
				s.push(')');
			}
			Value::TupleVariant(_, n, v) => {
				s.push_str(n);
				render_list(s, "(", v, ")");
			}
			Value::StructVariant(_, n, f) => render_fields(s, n, f),
		}
	}
}

fn render_list(s: &mut String, open: &str, v: &[Value], close: &str) {
	s.push_str(open);
	for (i, x) in v.iter().enumerate() {
		if i > 0 {
			s.push(',');
		}
		if i >= 12 && v.len() > 14 {
			s.push_str(&format!("..+{}", v.len() - i));
			break;
		}
		x.render_into(s);
	}
	s.push_str(close);
}

fn render_fields(s: &mut String, n: &str, f: &[(String, Value)]) {
	s.push_str(n);
	s.push('{');
	for (i, (k, v)) in f.iter().enumerate() {
		if i > 0 {
			s.push(',');
		}
		s.push_str(k);
		s.push(':');
		v.render_into(s);
	}
	s.push('}');
}

// ------------------------------------------------------------------------------------------------
// errors

#[derive(Debug, Clone, PartialEq, Eq)]
pub struct SimErr(pub String);

impl fmt::Display for SimErr {
	fn fmt(&self, f: &mut fmt::Formatter<'_>) -> fmt::Result {
		f.write_str(&self.0)
	}
}
impl std::error::Error for SimErr {}
impl ser::Error for SimErr {
	fn custom<T: fmt::Display>(msg: T) -> Self {
		SimErr(msg.to_string())
	}
}
impl de::Error for SimErr {
	fn custom<T: fmt::Display>(msg: T) -> Self {
		SimErr(msg.to_string())
	}
}

pub const INJECTED: &str = "injected serializer failure (disk full)";

// ------------------------------------------------------------------------------------------------
// serializer

/// Control block shared by all sub-serializers of one `serialize` call: counts calls into the serializer and
/// fails at the `fail_at`-th one (0-based) when set.
#[derive(Debug, Default)]
pub struct SerCtl {
	pub calls: Cell<usize>,
	pub fail_at: Cell<Option<usize>>,
}

impl SerCtl {
	pub fn new(fail_at: Option<usize>) -> Self {
		Self {
			calls: Cell::new(0),
			fail_at: Cell::new(fail_at),
		}
	}
	#[inline]
	fn tick(&self) -> Result<(), SimErr> {
		let c = self.calls.get();
		self.calls.set(c + 1);
		if self.fail_at.get() == Some(c) {
			Err(SimErr(INJECTED.into()))
		} else {
			Ok(())
		}
	}
}

#[derive(Clone, Copy)]
pub struct Ser<'a> {
	pub ctl: &'a SerCtl,
}

pub fn to_value<T: Serialize + ?Sized>(v: &T) -> Result<Value, SimErr> {
	let ctl = SerCtl::new(None);
	v.serialize(Ser { ctl: &ctl })
}

pub fn to_value_ctl<T: Serialize + ?Sized>(v: &T, ctl: &SerCtl) -> Result<Value, SimErr> {
	v.serialize(Ser { ctl })
}

pub struct SerSeq<'a> {
	ctl: &'a SerCtl,
	kind: SeqKind,
	items: Vec<Value>,
}
enum SeqKind {
	Seq,
	Tuple,
	TupleStruct(String),
	TupleVariant(String, String),
}
pub struct SerMap<'a> {
	ctl: &'a SerCtl,
	items: Vec<(Value, Value)>,
	key: Option<Value>,
}
pub struct SerStruct<'a> {
	ctl: &'a SerCtl,
	name: String,
	variant: Option<String>,
	fields: Vec<(String, Value)>,
}

impl<'a> ser::Serializer for Ser<'a> {
	type Ok = Value;
	type Error = SimErr;
	type SerializeSeq = SerSeq<'a>;
	type SerializeTuple = SerSeq<'a>;
	type SerializeTupleStruct = SerSeq<'a>;
	type SerializeTupleVariant = SerSeq<'a>;
	type SerializeMap = SerMap<'a>;
	type SerializeStruct = SerStruct<'a>;
	type SerializeStructVariant = SerStruct<'a>;

	fn serialize_bool(self, v: bool) -> Result<Value, SimErr> {
		self.ctl.tick()?;
		Ok(Value::Bool(v))
	}
	fn serialize_i8(self, v: i8) -> Result<Value, SimErr> {
		self.ctl.tick()?;
		Ok(Value::I8(v))
	}
	fn serialize_i16(self, v: i16) -> Result<Value, SimErr> {
		self.ctl.tick()?;
		Ok(Value::I16(v))
	}
	fn serialize_i32(self, v: i32) -> Result<Value, SimErr> {
		self.ctl.tick()?;
		Ok(Value::I32(v))
	}
	fn serialize_i64(self, v: i64) -> Result<Value, SimErr> {
		self.ctl.tick()?;
		Ok(Value::I64(v))
	}
	fn serialize_u8(self, v: u8) -> Result<Value, SimErr> {
		self.ctl.tick()?;
		Ok(Value::U8(v))
	}
	fn serialize_u16(self, v: u16) -> Result<Value, SimErr> {
		self.ctl.tick()?;
		Ok(Value::U16(v))
	}
	fn serialize_u32(self, v: u32) -> Result<Value, SimErr> {
		self.ctl.tick()?;
		Ok(Value::U32(v))
	}
	fn serialize_u64(self, v: u64) -> Result<Value, SimErr> {
		self.ctl.tick()?;
		Ok(Value::U64(v))
	}
	fn serialize_f32(self, v: f32) -> Result<Value, SimErr> {
		self.ctl.tick()?;
		Ok(Value::F32(v.to_bits()))
	}
	fn serialize_f64(self, v: f64) -> Result<Value, SimErr> {
		self.ctl.tick()?;
		Ok(Value::F64(v.to_bits()))
	}
	fn serialize_char(self, v: char) -> Result<Value, SimErr> {
		self.ctl.tick()?;
		Ok(Value::Char(v))
	}
	fn serialize_str(self, v: &str) -> Result<Value, SimErr> {
		self.ctl.tick()?;
		Ok(Value::Str(v.to_string()))
	}
	fn serialize_bytes(self, v: &[u8]) -> Result<Value, SimErr> {
		self.ctl.tick()?;
		Ok(Value::Bytes(v.to_vec()))
	}
	fn serialize_none(self) -> Result<Value, SimErr> {
		self.ctl.tick()?;
		Ok(Value::None)
	}
	fn serialize_some<T: ?Sized + Serialize>(self, value: &T) -> Result<Value, SimErr> {
		self.ctl.tick()?;
		Ok(Value::Some(Box::new(value.serialize(self)?)))
	}
	fn serialize_unit(self) -> Result<Value, SimErr> {
		self.ctl.tick()?;
		Ok(Value::Unit)
	}
	fn serialize_unit_struct(self, name: &'static str) -> Result<Value, SimErr> {
		self.ctl.tick()?;
		Ok(Value::UnitStruct(name.into()))
	}
	fn serialize_unit_variant(self, name: &'static str, _i: u32, variant: &'static str) -> Result<Value, SimErr> {
		self.ctl.tick()?;
		Ok(Value::UnitVariant(name.into(), variant.into()))
	}
	fn serialize_newtype_struct<T: ?Sized + Serialize>(self, name: &'static str, value: &T) -> Result<Value, SimErr> {
		self.ctl.tick()?;
		Ok(Value::Newtype(name.into(), Box::new(value.serialize(self)?)))
	}
	fn serialize_newtype_variant<T: ?Sized + Serialize>(
		self,
		name: &'static str,
		_i: u32,
		variant: &'static str,
		value: &T,
	) -> Result<Value, SimErr> {
		self.ctl.tick()?;
		Ok(Value::NewtypeVariant(
			name.into(),
			variant.into(),
			Box::new(value.serialize(self)?),
		))
	}
	fn serialize_seq(self, len: Option<usize>) -> Result<SerSeq<'a>, SimErr> {
		self.ctl.tick()?;
		Ok(SerSeq {
			ctl: self.ctl,
			kind: SeqKind::Seq,
			items: Vec::with_capacity(len.unwrap_or(0).min(1 << 16)),
		})
	}
	fn serialize_tuple(self, len: usize) -> Result<SerSeq<'a>, SimErr> {
		self.ctl.tick()?;
		Ok(SerSeq {
			ctl: self.ctl,
			kind: SeqKind::Tuple,
			items: Vec::with_capacity(len),
		})
	}
	fn serialize_tuple_struct(self, name: &'static str, len: usize) -> Result<SerSeq<'a>, SimErr> {
		self.ctl.tick()?;
		Ok(SerSeq {
			ctl: self.ctl,
			kind: SeqKind::TupleStruct(name.into()),
			items: Vec::with_capacity(len),
		})
	}
	fn serialize_tuple_variant(
		self,
		name: &'static str,
		_i: u32,
		variant: &'static str,
		len: usize,
	) -> Result<SerSeq<'a>, SimErr> {
		self.ctl.tick()?;
		Ok(SerSeq {
			ctl: self.ctl,
			kind: SeqKind::TupleVariant(name.into(), variant.into()),
			items: Vec::with_capacity(len),
		})
	}
	fn serialize_map(self, _len: Option<usize>) -> Result<SerMap<'a>, SimErr> {
		self.ctl.tick()?;
		Ok(SerMap {
			ctl: self.ctl,
			items: Vec::new(),
			key: None,
		})
	}
	fn serialize_struct(self, name: &'static str, len: usize) -> Result<SerStruct<'a>, SimErr> {
		self.ctl.tick()?;
		Ok(SerStruct {
			ctl: self.ctl,
			name: name.into(),
			variant: None,
			fields: Vec::with_capacity(len),
		})
	}
	fn serialize_struct_variant(
		self,
		name: &'static str,
		_i: u32,
		variant: &'static str,
		len: usize,
	) -> Result<SerStruct<'a>, SimErr> {
		self.ctl.tick()?;
		Ok(SerStruct {
			ctl: self.ctl,
			name: name.into(),
			variant: Some(variant.into()),
			fields: Vec::with_capacity(len),
		})
	}
	fn is_human_readable(&self) -> bool {
		false
	}
}

impl<'a> SerSeq<'a> {
	fn push<T: ?Sized + Serialize>(&mut self, value: &T) -> Result<(), SimErr> {
		self.ctl.tick()?;
		self.items.push(value.serialize(Ser { ctl: self.ctl })?);
		Ok(())
	}
	fn finish(self) -> Result<Value, SimErr> {
		self.ctl.tick()?;
		Ok(match self.kind {
			SeqKind::Seq => Value::Seq(self.items),
			SeqKind::Tuple => Value::Tuple(self.items),
			SeqKind::TupleStruct(n) => Value::TupleStruct(n, self.items),
			SeqKind::TupleVariant(n, v) => Value::TupleVariant(n, v, self.items),
		})
	}
}
impl<'a> ser::SerializeSeq for SerSeq<'a> {
	type Ok = Value;
	type Error = SimErr;
	fn serialize_element<T: ?Sized + Serialize>(&mut self, value: &T) -> Result<(), SimErr> {
		self.push(value)
	}
	fn end(self) -> Result<Value, SimErr> {
		self.finish()
	}
}
impl<'a> ser::SerializeTuple for SerSeq<'a> {
	type Ok = Value;
	type Error = SimErr;
	fn serialize_element<T: ?Sized + Serialize>(&mut self, value: &T) -> Result<(), SimErr> {
		self.push(value)
	}
	fn end(self) -> Result<Value, SimErr> {
		self.finish()
	}
}
impl<'a> ser::SerializeTupleStruct for SerSeq<'a> {
	type Ok = Value;
	type Error = SimErr;
	fn serialize_field<T: ?Sized + Serialize>(&mut self, value: &T) -> Result<(), SimErr> {
		self.push(value)
	}
	fn end(self) -> Result<Value, SimErr> {
		self.finish()
	}
}
impl<'a> ser::SerializeTupleVariant for SerSeq<'a> {
	type Ok = Value;
	type Error = SimErr;
	fn serialize_field<T: ?Sized + Serialize>(&mut self, value: &T) -> Result<(), SimErr> {
		self.push(value)
	}
	fn end(self) -> Result<Value, SimErr> {
		self.finish()
	}
}
impl<'a> ser::SerializeMap for SerMap<'a> {
	type Ok = Value;
	type Error = SimErr;
	fn serialize_key<T: ?Sized + Serialize>(&mut self, key: &T) -> Result<(), SimErr> {
		self.ctl.tick()?;
		self.key = Some(key.serialize(Ser { ctl: self.ctl })?);
		Ok(())
	}
	fn serialize_value<T: ?Sized + Serialize>(&mut self, value: &T) -> Result<(), SimErr> {
		self.ctl.tick()?;
		let k = self.key.take().ok_or_else(|| SimErr("value without key".into()))?;
		self.items.push((k, value.serialize(Ser { ctl: self.ctl })?));
		Ok(())
	}
	fn end(self) -> Result<Value, SimErr> {
		self.ctl.tick()?;
		Ok(Value::Map(self.items))
	}
}
impl<'a> SerStruct<'a> {
	fn push<T: ?Sized + Serialize>(&mut self, key: &'static str, value: &T) -> Result<(), SimErr> {
		self.ctl.tick()?;
		self.fields.push((key.into(), value.serialize(Ser { ctl: self.ctl })?));
		Ok(())
	}
	fn finish(self) -> Result<Value, SimErr> {
		self.ctl.tick()?;
		Ok(match self.variant {
			None => Value::Struct(self.name, self.fields),
			Some(v) => Value::StructVariant(self.name, v, self.fields),
		})
	}
}
impl<'a> ser::SerializeStruct for SerStruct<'a> {
	type Ok = Value;
	type Error = SimErr;
	fn serialize_field<T: ?Sized + Serialize>(&mut self, key: &'static str, value: &T) -> Result<(), SimErr> {
		self.push(key, value)
	}
	fn end(self) -> Result<Value, SimErr> {
		self.finish()
	}
}
impl<'a> ser::SerializeStructVariant for SerStruct<'a> {
	type Ok = Value;
	type Error = SimErr;
	fn serialize_field<T: ?Sized + Serialize>(&mut self, key: &'static str, value: &T) -> Result<(), SimErr> {
		self.push(key, value)
	}
	fn end(self) -> Result<Value, SimErr> {
		self.finish()
	}
}

// ------------------------------------------------------------------------------------------------
// deserializer

pub struct De<'a> {
	pub v: &'a Value,
}

pub fn from_value<'a, T: de::Deserialize<'a>>(v: &'a Value) -> Result<T, SimErr> {
	T::deserialize(De { v })
}

struct SeqDe<'a> {
	it: std::slice::Iter<'a, Value>,
}
impl<'de> SeqAccess<'de> for SeqDe<'de> {
	type Error = SimErr;
	fn next_element_seed<T: DeserializeSeed<'de>>(&mut self, seed: T) -> Result<Option<T::Value>, SimErr> {
		match self.it.next() {
			Some(v) => seed.deserialize(De { v }).map(Some),
			None => Ok(None),
		}
	}
	fn size_hint(&self) -> Option<usize> {
		Some(self.it.len())
	}
}

struct MapDe<'a> {
	it: std::slice::Iter<'a, (Value, Value)>,
	pending: Option<&'a Value>,
}
impl<'de> MapAccess<'de> for MapDe<'de> {
	type Error = SimErr;
	fn next_key_seed<K: DeserializeSeed<'de>>(&mut self, seed: K) -> Result<Option<K::Value>, SimErr> {
		match self.it.next() {
			Some((k, v)) => {
				self.pending = Some(v);
				seed.deserialize(De { v: k }).map(Some)
			}
			None => Ok(None),
		}
	}
	fn next_value_seed<V: DeserializeSeed<'de>>(&mut self, seed: V) -> Result<V::Value, SimErr> {
		let v = self.pending.take().ok_or_else(|| SimErr("value before key".into()))?;
		seed.deserialize(De { v })
	}
}

struct FieldsDe<'a> {
	it: std::slice::Iter<'a, (String, Value)>,
	pending: Option<&'a Value>,
}
impl<'de> MapAccess<'de> for FieldsDe<'de> {
	type Error = SimErr;
	fn next_key_seed<K: DeserializeSeed<'de>>(&mut self, seed: K) -> Result<Option<K::Value>, SimErr> {
		match self.it.next() {
			Some((k, v)) => {
				self.pending = Some(v);
				let d: de::value::StrDeserializer<'_, SimErr> = k.as_str().into_deserializer();
				seed.deserialize(d).map(Some)
			}
			None => Ok(None),
		}
	}
	fn next_value_seed<V: DeserializeSeed<'de>>(&mut self, seed: V) -> Result<V::Value, SimErr> {
		let v = self.pending.take().ok_or_else(|| SimErr("value before key".into()))?;
		seed.deserialize(De { v })
	}
}

enum VarBody<'a> {
	Unit,
	Newtype(&'a Value),
	Tuple(&'a [Value]),
	Struct(&'a [(String, Value)]),
}
struct EnumDe<'a> {
	variant: &'a str,
	body: VarBody<'a>,
}
impl<'de> EnumAccess<'de> for EnumDe<'de> {
	type Error = SimErr;
	type Variant = VariantDe<'de>;
	fn variant_seed<V: DeserializeSeed<'de>>(self, seed: V) -> Result<(V::Value, Self::Variant), SimErr> {
		let d: de::value::StrDeserializer<'_, SimErr> = self.variant.into_deserializer();
		let v = seed.deserialize(d)?;
		Ok((v, VariantDe { body: self.body }))
	}
}
struct VariantDe<'a> {
	body: VarBody<'a>,
}
impl<'de> VariantAccess<'de> for VariantDe<'de> {
	type Error = SimErr;
	fn unit_variant(self) -> Result<(), SimErr> {
		match self.body {
			VarBody::Unit => Ok(()),
			_ => Err(SimErr("expected unit variant".into())),
		}
	}
	fn newtype_variant_seed<T: DeserializeSeed<'de>>(self, seed: T) -> Result<T::Value, SimErr> {
		match self.body {
			VarBody::Newtype(v) => seed.deserialize(De { v }),
			_ => Err(SimErr("expected newtype variant".into())),
		}
	}
	fn tuple_variant<V: Visitor<'de>>(self, _len: usize, visitor: V) -> Result<V::Value, SimErr> {
		match self.body {
			VarBody::Tuple(v) => visitor.visit_seq(SeqDe { it: v.iter() }),
			_ => Err(SimErr("expected tuple variant".into())),
		}
	}
	fn struct_variant<V: Visitor<'de>>(self, _f: &'static [&'static str], visitor: V) -> Result<V::Value, SimErr> {
		match self.body {
			VarBody::Struct(f) => visitor.visit_map(FieldsDe {
				it: f.iter(),
				pending: None,
			}),
			_ => Err(SimErr("expected struct variant".into())),
		}
	}
}

impl<'de> de::Deserializer<'de> for De<'de> {
	type Error = SimErr;

	fn deserialize_any<V: Visitor<'de>>(self, visitor: V) -> Result<V::Value, SimErr> {
		match self.v {
			Value::Unit | Value::UnitStruct(_) => visitor.visit_unit(),
			Value::Bool(b) => visitor.visit_bool(*b),
			Value::U8(x) => visitor.visit_u8(*x),
			Value::U16(x) => visitor.visit_u16(*x),
			Value::U32(x) => visitor.visit_u32(*x),
			Value::U64(x) => visitor.visit_u64(*x),
			Value::I8(x) => visitor.visit_i8(*x),
			Value::I16(x) => visitor.visit_i16(*x),
			Value::I32(x) => visitor.visit_i32(*x),
			Value::I64(x) => visitor.visit_i64(*x),
			Value::F32(b) => visitor.visit_f32(f32::from_bits(*b)),
			Value::F64(b) => visitor.visit_f64(f64::from_bits(*b)),
			Value::Char(c) => visitor.visit_char(*c),
			Value::Str(s) => visitor.visit_borrowed_str(s),
			Value::Bytes(b) => visitor.visit_borrowed_bytes(b),
			Value::None => visitor.visit_none(),
			Value::Some(b) => visitor.visit_some(De { v: b }),
			Value::Seq(v) | Value::Tuple(v) | Value::TupleStruct(_, v) => visitor.visit_seq(SeqDe { it: v.iter() }),
			Value::Map(m) => visitor.visit_map(MapDe {
				it: m.iter(),
				pending: None,
			}),
			Value::Struct(_, f) => visitor.visit_map(FieldsDe {
				it: f.iter(),
				pending: None,
			}),
			Value::Newtype(_, b) => visitor.visit_newtype_struct(De { v: b }),
			Value::UnitVariant(_, v) => visitor.visit_enum(EnumDe {
				variant: v,
				body: VarBody::Unit,
			}),
			Value::NewtypeVariant(_, v, b) => visitor.visit_enum(EnumDe {
				variant: v,
				body: VarBody::Newtype(b),
			}),
			Value::TupleVariant(_, v, b) => visitor.visit_enum(EnumDe {
				variant: v,
				body: VarBody::Tuple(b),
			}),
			Value::StructVariant(_, v, b) => visitor.visit_enum(EnumDe {
				variant: v,
				body: VarBody::Struct(b),
			}),
		}
	}

	fn deserialize_option<V: Visitor<'de>>(self, visitor: V) -> Result<V::Value, SimErr> {
		match self.v {
			Value::None | Value::Unit => visitor.visit_none(),
			Value::Some(b) => visitor.visit_some(De { v: b }),
			_ => visitor.visit_some(self),
		}
	}

	fn deserialize_newtype_struct<V: Visitor<'de>>(self, _name: &'static str, visitor: V) -> Result<V::Value, SimErr> {
		match self.v {
			Value::Newtype(_, b) => visitor.visit_newtype_struct(De { v: b }),
			_ => visitor.visit_newtype_struct(self),
		}
	}

	fn deserialize_enum<V: Visitor<'de>>(
		self,
		_name: &'static str,
		_variants: &'static [&'static str],
		visitor: V,
	) -> Result<V::Value, SimErr> {
		match self.v {
			Value::UnitVariant(..) | Value::NewtypeVariant(..) | Value::TupleVariant(..) | Value::StructVariant(..) => {
				self.deserialize_any(visitor)
			}
			// externally tagged forms as other formats would deliver them
			Value::Str(s) => visitor.visit_enum(EnumDe {
				variant: s,
				body: VarBody::Unit,
			}),
			_ => Err(SimErr(format!("expected enum, found {}", self.v.render()))),
		}
	}

	fn deserialize_unit_struct<V: Visitor<'de>>(self, _name: &'static str, visitor: V) -> Result<V::Value, SimErr> {
		match self.v {
			Value::Unit | Value::UnitStruct(_) => visitor.visit_unit(),
			_ => Err(SimErr("expected unit struct".into())),
		}
	}

	serde::forward_to_deserialize_any! {
		bool i8 i16 i32 i64 i128 u8 u16 u32 u64 u128 f32 f64 char str string
		bytes byte_buf unit seq tuple
		tuple_struct map struct identifier ignored_any
	}

	fn is_human_readable(&self) -> bool {
		false
	}
}

// ------------------------------------------------------------------------------------------------
// byte codec

fn put_varint(out: &mut Vec<u8>, mut x: u64) {
	loop {
		let b = (x & 0x7f) as u8;
		x >>= 7;
		if x == 0 {
			out.push(b);
			return;
		}
		out.push(b | 0x80);
	}
}
fn put_str(out: &mut Vec<u8>, s: &str) {
	put_varint(out, s.len() as u64);
	out.extend_from_slice(s.as_bytes());
}

pub fn encode(v: &Value) -> Vec<u8> {
	let mut out = Vec::new();
	enc(v, &mut out);
	out
}

fn enc_list(tag: u8, items: &[Value], out: &mut Vec<u8>) {
	out.push(tag);
	put_varint(out, items.len() as u64);
	items.iter().for_each(|x| enc(x, out));
}
fn enc_fields(f: &[(String, Value)], out: &mut Vec<u8>) {
	put_varint(out, f.len() as u64);
	for (k, v) in f {
		put_str(out, k);
		enc(v, out);
	}
}

fn enc(v: &Value, out: &mut Vec<u8>) {
	match v {
		Value::Unit => out.push(0),
		Value::Bool(b) => {
			out.push(1);
			out.push(u8::from(*b));
		}
		Value::U8(x) => {
			out.push(2);
			out.push(*x);
		}
		Value::U16(x) => {
			out.push(3);
			out.extend_from_slice(&x.to_le_bytes());
		}
		Value::U32(x) => {
			out.push(4);
			out.extend_from_slice(&x.to_le_bytes());
		}
		Value::U64(x) => {
			out.push(5);
			out.extend_from_slice(&x.to_le_bytes());
		}
		Value::I8(x) => {
			out.push(6);
			out.extend_from_slice(&x.to_le_bytes());
		}
		Value::I16(x) => {
			out.push(7);
			out.extend_from_slice(&x.to_le_bytes());
		}
		Value::I32(x) => {
			out.push(8);
			out.extend_from_slice(&x.to_le_bytes());
		}
		Value::I64(x) => {
			out.push(9);
			out.extend_from_slice(&x.to_le_bytes());
		}
		Value::F32(x) => {
			out.push(10);
			out.extend_from_slice(&x.to_le_bytes());
		}
		Value::F64(x) => {
			out.push(11);
			out.extend_from_slice(&x.to_le_bytes());
		}
		Value::Char(c) => {
			out.push(12);
			out.extend_from_slice(&(*c as u32).to_le_bytes());
		}
		Value::Str(s) => {
			out.push(13);
			put_str(out, s);
		}
		Value::Bytes(b) => {
			out.push(14);
			put_varint(out, b.len() as u64);
			out.extend_from_slice(b);
		}
		Value::None => out.push(15),
		Value::Some(b) => {
			out.push(16);
			enc(b, out);
		}
		Value::Seq(v) => enc_list(17, v, out),
		Value::Tuple(v) => enc_list(18, v, out),
		Value::Map(m) => {
			out.push(19);
			put_varint(out, m.len() as u64);
			for (k, v) in m {
				enc(k, out);
				enc(v, out);
			}
		}
		Value::Struct(n, f) => {
			out.push(20);
			put_str(out, n);
			enc_fields(f, out);
		}
		Value::UnitStruct(n) => {
			out.push(21);
			put_str(out, n);
		}
		Value::Newtype(n, b) => {
			out.push(22);
			put_str(out, n);
			enc(b, out);
		}
		Value::TupleStruct(n, v) => {
			out.push(23);
			put_str(out, n);
			put_varint(out, v.len() as u64);
			v.iter().for_each(|x| enc(x, out));
		}
		Value::UnitVariant(n, v) => {
			out.push(24);
			put_str(out, n);
			put_str(out, v);
		}
		Value::NewtypeVariant(n, v, b) => {
			out.push(25);
			put_str(out, n);
			put_str(out, v);
			enc(b, out);
		}
		Value::TupleVariant(n, v, b) => {
			out.push(26);
			put_str(out, n);
			put_str(out, v);
			put_varint(out, b.len() as u64);
			b.iter().for_each(|x| enc(x, out));
		}
		Value::StructVariant(n, v, f) => {
			out.push(27);
			put_str(out, n);
			put_str(out, v);
			enc_fields(f, out);
		}
	}
}

struct Rd<'a> {
	b: &'a [u8],
	p: usize,
	depth: usize,
}

impl<'a> Rd<'a> {
	fn take(&mut self, n: usize) -> Result<&'a [u8], SimErr> {
		if self.b.len() - self.p < n {
			return Err(SimErr("unexpected end of stream".into()));
		}
		let s = &self.b[self.p..self.p + n];
		self.p += n;
		Ok(s)
	}
	fn byte(&mut self) -> Result<u8, SimErr> {
		Ok(self.take(1)?[0])
	}
	fn varint(&mut self) -> Result<u64, SimErr> {
		let mut x = 0u64;
		let mut shift = 0;
		loop {
			let b = self.byte()?;
			if shift >= 63 && b > 1 {
				return Err(SimErr("varint overflow".into()));
			}
			x |= u64::from(b & 0x7f) << shift;
			if b & 0x80 == 0 {
				return Ok(x);
			}
			shift += 7;
		}
	}
	/// a length that cannot exceed the number of remaining bytes (every element needs >= 1 byte)
	fn len(&mut self) -> Result<usize, SimErr> {
		let n = self.varint()?;
		if n > (self.b.len() - self.p) as u64 {
			return Err(SimErr("length exceeds stream".into()));
		}
		Ok(n as usize)
	}
	fn string(&mut self) -> Result<String, SimErr> {
		let n = self.len()?;
		let s = self.take(n)?;
		String::from_utf8(s.to_vec()).map_err(|_| SimErr("invalid utf-8".into()))
	}
	fn list(&mut self) -> Result<Vec<Value>, SimErr> {
		let n = self.len()?;
		let mut v = Vec::with_capacity(n);
		for _ in 0..n {
			v.push(self.value()?);
		}
		Ok(v)
	}
	fn fields(&mut self) -> Result<Vec<(String, Value)>, SimErr> {
		let n = self.len()?;
		let mut v = Vec::with_capacity(n);
		for _ in 0..n {
			let k = self.string()?;
			v.push((k, self.value()?));
		}
		Ok(v)
	}
	fn arr<const N: usize>(&mut self) -> Result<[u8; N], SimErr> {
		let s = self.take(N)?;
		let mut a = [0u8; N];
		a.copy_from_slice(s);
		Ok(a)
	}
	fn value(&mut self) -> Result<Value, SimErr> {
		self.depth += 1;
		if self.depth > 200 {
			return Err(SimErr("nesting too deep".into()));
		}
		let tag = self.byte()?;
		let v = match tag {
			0 => Value::Unit,
			1 => match self.byte()? {
				0 => Value::Bool(false),
				1 => Value::Bool(true),
				_ => return Err(SimErr("bad bool".into())),
			},
			2 => Value::U8(self.byte()?),
			3 => Value::U16(u16::from_le_bytes(self.arr()?)),
			4 => Value::U32(u32::from_le_bytes(self.arr()?)),
			5 => Value::U64(u64::from_le_bytes(self.arr()?)),
			6 => Value::I8(i8::from_le_bytes(self.arr()?)),
			7 => Value::I16(i16::from_le_bytes(self.arr()?)),
			8 => Value::I32(i32::from_le_bytes(self.arr()?)),
			9 => Value::I64(i64::from_le_bytes(self.arr()?)),
			10 => Value::F32(u32::from_le_bytes(self.arr()?)),
			11 => Value::F64(u64::from_le_bytes(self.arr()?)),
			12 => Value::Char(
				char::from_u32(u32::from_le_bytes(self.arr()?)).ok_or_else(|| SimErr("bad char".into()))?,
			),
			13 => Value::Str(self.string()?),
			14 => {
				let n = self.len()?;
				Value::Bytes(self.take(n)?.to_vec())
			}
			15 => Value::None,
			16 => Value::Some(Box::new(self.value()?)),
			17 => Value::Seq(self.list()?),
			18 => Value::Tuple(self.list()?),
			19 => {
				let n = self.len()?;
				let mut m = Vec::with_capacity(n);
				for _ in 0..n {
					let k = self.value()?;
					m.push((k, self.value()?));
				}
				Value::Map(m)
			}
			20 => {
				let n = self.string()?;
				Value::Struct(n, self.fields()?)
			}
			21 => Value::UnitStruct(self.string()?),
			22 => {
				let n = self.string()?;
				Value::Newtype(n, Box::new(self.value()?))
			}
			23 => {
				let n = self.string()?;
				Value::TupleStruct(n, self.list()?)
			}
			24 => {
				let n = self.string()?;
				Value::UnitVariant(n, self.string()?)
			}
			25 => {
				let n = self.string()?;
				let v = self.string()?;
				Value::NewtypeVariant(n, v, Box::new(self.value()?))
			}
			26 => {
				let n = self.string()?;
				let v = self.string()?;
				Value::TupleVariant(n, v, self.list()?)
			}
			27 => {
				let n = self.string()?;
				let v = self.string()?;
				Value::StructVariant(n, v, self.fields()?)
			}
			t => return Err(SimErr(format!("unknown tag {t}"))),
		};
		self.depth -= 1;
		Ok(v)
	}
}

pub fn decode(b: &[u8]) -> Result<Value, SimErr> {
	let mut r = Rd { b, p: 0, depth: 0 };
	let v = r.value()?;
	if r.p != b.len() {
		return Err(SimErr("trailing bytes".into()));
	}
	Ok(v)
}
