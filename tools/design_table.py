#!/usr/bin/env python3
"""Regenerates the table of DESIGN.md §11 (between the markers) from seeded/*/meta.json."""
import json, os, glob, re
V = os.path.dirname(os.path.dirname(os.path.abspath(__file__)))
rows = []
tot = caught = 0
for d in sorted(glob.glob(os.path.join(V, "seeded", "C*-[AB]"))):
    name = os.path.basename(d)
    m = json.load(open(os.path.join(d, "meta.json")))
    res = m.get("check_results_quick", {})
    by = [c for c, r in res.items() if r.startswith("VIOLATION")]
    tot += 1
    caught += bool(by)
    def cell(t, n):
        t = re.sub(r"\s+", " ", t).replace("|", "/")
        return t if len(t) <= n else t[: n - 1] + "…"
    rows.append("| %s | %s | %s | %s | %s |" % (name, m.get("breaks_property", name[:3]), cell(m.get("summary", ""), 170), cell(m.get("needs_to_manifest", ""), 110), ", ".join(by) if by else "— " + cell(m.get("note", "not reported"), 90)))
table = "| id | property | change | needs | reported by (quick) |\n|---|---|---|---|---|\n" + "\n".join(rows) + "\n"
p = os.path.join(V, "DESIGN.md")
s = open(p).read()
a = s.index("<!-- seeded-table-begin -->")
b = s.index("<!-- seeded-table-end -->")
s = s[:a] + "<!-- seeded-table-begin -->\n" + table + s[b:]
open(p, "w").write(s)
print(f"{caught} of {tot} seeded changes reported")
