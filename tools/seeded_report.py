#!/usr/bin/env python3
"""Builds seeded/<id>/meta.json and seeded/RESULTS.md from the sub-agents' deliverables and tools/mutant.sh logs."""
import json, os, re, glob
V = os.path.dirname(os.path.dirname(os.path.abspath(__file__)))
rows = []
for d in sorted(glob.glob(os.path.join(V, "seeded", "C*-[AB]"))):
    name = os.path.basename(d)
    pid, which = name.split("-")
    prop = pid[:3]   # C05x1 -> C05 (later waves of sub-agents carry a suffix)
    log = open(os.path.join(d, "run.log")).read() if os.path.exists(os.path.join(d, "run.log")) else ""
    conf = re.search(r"confirmed: (.*)", log)
    checks = re.search(r"checks:(.*)", log)
    agent_meta = {}
    mp = f"/tmp/wt-{pid}/OUT/meta.json"
    if os.path.exists(mp):
        try:
            agent_meta = json.load(open(mp)).get(which, {})
        except Exception:
            agent_meta = {}
    old = {}
    if os.path.exists(os.path.join(d, "meta.json")):
        old = json.load(open(os.path.join(d, "meta.json")))
    res = {}
    if checks:
        for tok in checks.group(1).split():
            c, rc = tok.split(":")
            res[c] = {"0": "silent", "1": "VIOLATION reported", "2": "harness error"}.get(rc, rc)
    viol = re.findall(r"VIOLATION property=(C\d+) .*? sut=(\S+) predicate=(\S+)", log)
    meta = {
        "breaks_property": prop,
        "summary": agent_meta.get("summary", old.get("summary", "")),
        "needs_to_manifest": agent_meta.get("needs_to_manifest", old.get("needs_to_manifest", "")),
        "files": agent_meta.get("files", old.get("files", [])),
        "confirmed_in_scratch_worktree": conf.group(1) if conf else old.get("confirmed_in_scratch_worktree", ""),
        "what_i_ran": f"tools/mutant.sh {pid} {which} " + " ".join(res.keys()) + "  (scratch worktree of /repo + scratch copy of /verif; equivalent to: git -C /repo apply seeded/%s/patch.diff; bin/check <ID> quick; git -C /repo checkout -- .)" % name,
        "check_results_quick": res,
        "violations_reported": sorted(set(f"{p}:{s}:{q}" for p, s, q in viol))[:6],
        "note": old.get("note", ""),
    }
    json.dump(meta, open(os.path.join(d, "meta.json"), "w"), indent=1)
    caught = [c for c, r in res.items() if r.startswith("VIOLATION")]
    rows.append((name, prop, meta["summary"][:110].replace("|", "/"), ", ".join(caught) if caught else "— (not detected)", meta["confirmed_in_scratch_worktree"], meta["note"]))
with open(os.path.join(V, "seeded", "RESULTS.md"), "w") as f:
    f.write("# Seeded changes written by independent sub-agents, and the checks that catch them (quick tier)\n\n")
    f.write("| id | property | change | caught by | confirmation | note |\n|---|---|---|---|---|---|\n")
    for r in rows:
        f.write("| " + " | ".join(r) + " |\n")
print(len(rows), "seeded changes")
