#!/bin/sh
# tools/benign.sh <name> <check> [<check>...]  - behaviour-preserving edit (sensitivity/benign/<name>.diff): every check must stay silent
set -u
NAME=$1; shift
SCR=/tmp/brepo-$NAME; MV=/tmp/bverif-$NAME
git -C /repo worktree add -q --detach "$SCR" HEAD || exit 2
( cd "$SCR" && git apply /verif/sensitivity/benign/$NAME.diff ) || { git -C /repo worktree remove --force "$SCR"; exit 2; }
SUITE=$(cd "$SCR" && CARGO_NET_OFFLINE=true cargo test --offline --lib 2>&1 | grep "test result" | head -1); rm -rf "$SCR/target"
mkdir -p "$MV"; rsync -a --exclude target --exclude replays --exclude .git --exclude seeded /verif/ "$MV"/
sed -i "s|path = \"/repo\"|path = \"$SCR\"|" "$MV/sim/Cargo.toml"
RES=""
for C in "$@"; do
  OUTC=$(cd "$MV" && VERIF_NO_EVIDENCE=1 ./bin/check "$C" quick 2>&1); RC=$?
  RES="$RES $C:$RC"
  [ $RC -ne 0 ] && echo "$OUTC" | grep -E "VIOLATION|harness" | head -3 | cut -c1-300
done
git -C /repo worktree remove --force "$SCR"; rm -rf "$MV"
echo "$NAME suite=[$SUITE] checks:$RES"
