#!/usr/bin/env python3
"""tools/seed_prompt.py <property id> <worktree suffix>  - prints the task text handed to a fresh sub-agent that writes two
seeded changes for one property in its own scratch worktree /tmp/wt-<suffix> (git -C /repo worktree add --detach /tmp/wt-<suffix> HEAD).
The agent gets the property text and the summaries of the changes written before (so that it does not repeat them) - nothing
about the verification machinery. Evaluate with tools/mutant.sh <suffix> A|B <checks...>."""
import sys, json, glob, os
V = os.path.dirname(os.path.dirname(os.path.abspath(__file__)))
prop_id = sys.argv[1]
pid = sys.argv[2] if len(sys.argv) > 2 else prop_id
p = next(json.loads(l) for l in open(os.path.join(V, "properties.jsonl")) if json.loads(l)["id"] == prop_id)
q = p.get("quantifier", {})
prop = "TITLE: %s\n\nSTATEMENT: %s\n\nQUANTIFIER: %s\n\nWHY THE EXISTING TESTS CANNOT SETTLE IT: %s\n\nCODE ANCHORS (files): %s\n" % (
    p["title"], p["statement"], q.get("text", q) if isinstance(q, dict) else q, p.get("why_tests_cant", ""), ", ".join(p.get("anchors", {}).get("files", [])))
used = []
for m in sorted(glob.glob(os.path.join(V, "seeded", prop_id + "*", "meta.json"))):
    used.append("- " + json.load(open(m)).get("summary", "")[:130].replace("\n", " "))
print(f"""You are helping to evaluate a verification harness by writing realistic bugs ("seeded defects") for a Rust library.

The library is `yata` (technical-analysis library: streaming moving averages, methods, trading indicators built on a circular-buffer `Window`). You have your OWN scratch git worktree of it at /tmp/wt-{pid} (work ONLY there; never touch /repo or /verif; nothing else exists for you). Everything is offline: use `cargo test --offline`, `cargo build --offline`.

Here is a semantic property the library is supposed to satisfy:

--------------------------------
{prop}
--------------------------------

YOUR TASK: produce TWO independent, different source changes (call them A and B), each of which on its own
  1. is a small, realistic modification of the library source under /tmp/wt-{pid}/src (the kind of slip a maintainer could make in a refactoring or "optimisation": an off-by-one in one phase, a wrong comparison operator, a skipped update in a rare branch, a wrong initialisation, a stale cached value, a field left out, ...),
  2. BREAKS the property above,
  3. still compiles and still passes the library's complete existing test suite (`cd /tmp/wt-{pid} && cargo test --offline` must report all tests passing - 132 unit tests plus doc tests),
  4. needs something SPECIFIC to manifest - a particular ring rotation phase, window length class, tie / repeated value / signed zero, a particular multi-step sequence of operations, a fault or snapshot at a particular point, an unusual but valid input, a long stream, a particular parameter value, or two cooperating sites that each look fine alone - i.e. NOT something any ordinary use would expose at once (a change that makes every output wrong is useless).
A and B should differ in the mechanism they attack (different function / different aspect of the property).

For each change write a DEMONSTRATION: a Rust integration test file that uses only the public API of the crate (`use yata::...`), which FAILS with the change applied and PASSES on the unmodified source. Verify both directions yourself by actually running it (put it temporarily at /tmp/wt-{pid}/tests/demo_a.rs and run `cargo test --offline --test demo_a`; check with the change, then revert with `git checkout -- src` (do NOT use git stash: the git directory is shared) and check without).

DELIVERABLES (all under /tmp/wt-{pid}/OUT/):
  - A.diff and B.diff : output of `git diff -- src` for each change alone (relative to the unmodified worktree HEAD), applicable with `git apply`
  - demo_a.rs and demo_b.rs : the demonstration test files
  - meta.json : {{"A": {{"summary": "...", "needs_to_manifest": "...", "files": [...]}}, "B": {{...}}}}
When done, leave the worktree source UNMODIFIED (git checkout -- src; remove tests/demo_*.rs) so that only OUT/ holds your results.

Rules: do not edit or delete existing tests; do not add dependencies; keep each diff small (a few lines). Do not look for or use anything outside /tmp/wt-{pid}. Report briefly what A and B are and the exact commands you used to confirm (1)-(4) and the demonstrations.""")

print("\nALREADY USED IDEAS for this property (do NOT repeat them or close variants):\n" + "\n".join(used))
print("\nPrefer a defect whose trigger combines two conditions (a parameter class AND an input pattern, or a particular sequence of API calls), and that a long random test with ordinary data would not hit.")
if prop_id == "C13":
    print("\nNOTE: you MAY add `serde_json = \"1\"` under [dev-dependencies] for the demonstrations only; round-trip through serde_json::Value, not JSON text.")
if prop_id == "C19":
    print("\nNOTE: changes should live in code that differs when the cargo feature `unsafe_performance` is on; demonstrations run with `--features unsafe_performance`; the default suite must still pass.")
if prop_id == "C20":
    print("\nNOTE: changes must be invisible in the default build and show only with period_type_u16/u32/u64 or value_type_f32; say in meta.json which feature each demonstration needs.")
