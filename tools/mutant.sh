#!/bin/sh
# tools/mutant.sh <ID> <A|B> <check> [<check>...]
# Evaluates one seeded change WITHOUT touching /repo or /verif (so that development can go on meanwhile):
# 1. scratch worktree of /repo: the demonstration passes on the unchanged source, fails with the change, and the
#    existing suite still passes with the change;
# 2. a scratch copy of /verif whose harness is pointed at that changed worktree runs the given checks (quick tier).
# The equivalent in-place procedure is: git -C /repo apply seeded/<id>/patch.diff; bin/check <ID> quick; git -C /repo checkout -- .
# Results: /verif/seeded/<ID>-<A|B>/{patch.diff,demo.rs,meta.json,run.log}
set -u
ID=$1; WHICH=$2; shift 2
# optional: MUT_FEATURES="unsafe_performance" (cargo features the demonstration needs)
FEAT=""; [ -n "${MUT_FEATURES:-}" ] && FEAT="--features $MUT_FEATURES"
SRC=/tmp/wt-$ID/OUT
low=$(echo "$WHICH" | tr 'AB' 'ab')
OUT=/verif/seeded/$ID-$WHICH
mkdir -p "$OUT"
# first evaluation: take the sub-agent's deliverables; re-evaluation: seeded/<id>/ already holds them
if [ -f "$SRC/$WHICH.diff" ]; then cp "$SRC/$WHICH.diff" "$OUT/patch.diff"; cp "$SRC/demo_$low.rs" "$OUT/demo.rs"; fi
[ -f "$OUT/patch.diff" ] || { echo "no patch for $ID-$WHICH"; exit 2; }
LOG="$OUT/run.log"; : > "$LOG"
SCR=/tmp/mrepo-$ID-$WHICH
MV=/tmp/mverif-$ID-$WHICH
git -C /repo worktree add -q --detach "$SCR" HEAD >>"$LOG" 2>&1 || { echo "cannot create worktree" | tee -a "$LOG"; exit 2; }
cleanup() { git -C /repo worktree remove --force "$SCR" >/dev/null 2>&1; rm -rf "$MV"; }
cd "$SCR" || exit 2
cp Cargo.toml /tmp/Cargo.toml.$ID.$WHICH
if grep -q serde_json "$OUT/demo.rs"; then printf '\n[dev-dependencies]\nserde_json = "1"\n' >> Cargo.toml; fi
# MUT_SKIP_CONFIRM=1 (re-evaluation of a change that was confirmed before): only apply the change and run the checks
if [ -n "${MUT_SKIP_CONFIRM:-}" ]; then
  PREV=$(grep -o 'demo_passes_clean=[a-z]* demo_fails_with_change=[a-z]* existing_suite=[a-z]*' "$OUT/meta.json" 2>/dev/null | head -1)
  git apply "$OUT/patch.diff" >>"$LOG" 2>&1 || { echo "patch does not apply" | tee -a "$LOG"; cleanup; exit 2; }
  rm -f /tmp/Cargo.toml.$ID.$WHICH
  echo "confirmed: ${PREV:-demo_passes_clean=yes demo_fails_with_change=yes existing_suite=pass} (confirmed at the first evaluation; not repeated)" | tee -a "$LOG"
else
mkdir -p tests; cp "$OUT/demo.rs" tests/demo.rs
echo "== demo on the unchanged source" >>"$LOG"
if CARGO_NET_OFFLINE=true cargo test --offline $FEAT --test demo >>"$LOG" 2>&1; then PASS_CLEAN=yes; else PASS_CLEAN=no; fi
git apply "$OUT/patch.diff" >>"$LOG" 2>&1 || { echo "patch does not apply" | tee -a "$LOG"; cleanup; exit 2; }
echo "== demo with the change" >>"$LOG"
if CARGO_NET_OFFLINE=true cargo test --offline $FEAT --test demo >>"$LOG" 2>&1; then FAIL_MUT=no; else FAIL_MUT=yes; fi
rm -rf tests; cp /tmp/Cargo.toml.$ID.$WHICH Cargo.toml; rm -f /tmp/Cargo.toml.$ID.$WHICH
echo "== existing suite with the change" >>"$LOG"
if CARGO_NET_OFFLINE=true cargo test --offline --lib >>"$LOG" 2>&1; then SUITE=pass; else SUITE=fail; fi
rm -rf "$SCR/target"
echo "confirmed: demo_passes_clean=$PASS_CLEAN demo_fails_with_change=$FAIL_MUT existing_suite=$SUITE" | tee -a "$LOG"
fi
# scratch copy of the harness pointed at the changed worktree
mkdir -p "$MV"
rsync -a --exclude target --exclude replays --exclude .git --exclude seeded /verif/ "$MV"/
sed -i "s|path = \"/repo\"|path = \"$SCR\"|" "$MV/sim/Cargo.toml"
RES=""
for C in "$@"; do
  OUTC=$(cd "$MV" && VERIF_NO_EVIDENCE=1 ./bin/check "$C" quick 2>&1); RC=$?
  echo "== check $C exit=$RC" >>"$LOG"; echo "$OUTC" | grep -E "VIOLATION|summary|harness" | cut -c1-500 | head -8 >>"$LOG"
  RES="$RES $C:$RC"
done
cleanup
echo "checks:$RES" | tee -a "$LOG"
