#!/bin/sh
# tools/mutant.sh <ID> <A|B> <check> [<check>...]
# 1. confirms in a scratch worktree that the seeded change compiles, passes the existing suite, and that its
#    demonstration fails with the change and passes without it;
# 2. applies it to /repo, runs the given checks (quick tier), and undoes it straight afterwards.
# Results: /verif/seeded/<ID>-<A|B>/{patch.diff,demo.rs,meta.json,run.log}
set -u
ID=$1; WHICH=$2; shift 2
SRC=/tmp/wt-$ID/OUT
low=$(echo "$WHICH" | tr 'AB' 'ab')
OUT=/verif/seeded/$ID-$WHICH
mkdir -p "$OUT"
cp "$SRC/$WHICH.diff" "$OUT/patch.diff"; cp "$SRC/demo_$low.rs" "$OUT/demo.rs"
LOG="$OUT/run.log"; : > "$LOG"
SCR=/tmp/verify-$ID-$WHICH
git -C /repo worktree add -q --detach "$SCR" HEAD >>"$LOG" 2>&1 || { echo "cannot create worktree" | tee -a "$LOG"; exit 2; }
cleanup() { git -C /repo worktree remove --force "$SCR" >/dev/null 2>&1; }
cd "$SCR" || exit 2
if grep -q serde_json "$SRC/meta.json" 2>/dev/null || grep -q serde_json "$OUT/demo.rs"; then
  printf '\n[dev-dependencies]\nserde_json = "1"\n' >> Cargo.toml
fi
mkdir -p tests; cp "$OUT/demo.rs" tests/demo.rs
echo "== demo on the unchanged source" >>"$LOG"
if CARGO_NET_OFFLINE=true cargo test --offline --test demo >>"$LOG" 2>&1; then PASS_CLEAN=yes; else PASS_CLEAN=no; fi
git apply "$OUT/patch.diff" >>"$LOG" 2>&1 || { echo "patch does not apply" | tee -a "$LOG"; cleanup; exit 2; }
echo "== demo with the change" >>"$LOG"
if CARGO_NET_OFFLINE=true cargo test --offline --test demo >>"$LOG" 2>&1; then FAIL_MUT=no; else FAIL_MUT=yes; fi
rm -rf tests
echo "== existing suite with the change" >>"$LOG"
if CARGO_NET_OFFLINE=true cargo test --offline --lib >>"$LOG" 2>&1; then SUITE=pass; else SUITE=fail; fi
cd /verif; cleanup
echo "confirmed: demo_passes_clean=$PASS_CLEAN demo_fails_with_change=$FAIL_MUT existing_suite=$SUITE" | tee -a "$LOG"
# run the checks against /repo with the change applied
if [ -n "$(git -C /repo status --porcelain)" ]; then echo "/repo is not clean" | tee -a "$LOG"; exit 2; fi
git -C /repo apply "$OUT/patch.diff" || exit 2
RES=""
for C in "$@"; do
  OUTC=$(VERIF_NO_EVIDENCE=1 /verif/bin/check "$C" quick 2>&1); RC=$?
  echo "== check $C exit=$RC" >>"$LOG"; echo "$OUTC" | grep -E "VIOLATION|summary|harness" | cut -c1-400 >>"$LOG"
  RES="$RES $C:$RC"
done
git -C /repo checkout -- . 
echo "checks:$RES" | tee -a "$LOG"
