#!/usr/bin/env python3
"""Regenerates /verif/MANIFEST.json from the table below (single source of truth for the interface file)."""
import json, os, sys
V = os.path.dirname(os.path.dirname(os.path.abspath(__file__)))

TECH = "deterministic simulation with fault injection: "
CHECKS = {
 "C01": dict(level="exploration", design="§4 C01",
   technique=TECH + "seeded op-history simulation of Window<T> (pushes, observers, iterator splits, restart/rebuild through every export path, storage-fault injection on the serialized form) against a VecDeque reference model, op by op",
   text="Seeded search over operation histories on the real Window<T>; every observer is compared with a VecDeque model after every op; thorough stratifies the capacity over every value 0..=254 (0..=4094 would need the u16 build, see C20) so the capacity dimension is complete while phases/observer choices are sampled. A clean batch is evidence, not proof.",
   note="Trusted: the VecDeque model, the simfmt serializer/deserializer written for this task, catch_unwind classification of documented panics. Labels stand for all element values (parametricity)."),
}
NA = {
 "C16": "Action algebra is a total, stateless algebra over a finite domain: no history, state, fault, replica or schedule for a simulator to drive; the fitting technique (exhaustive enumeration) is model checking, which this task excludes (DESIGN.md §5).",
 "C18": "Candle helper identities and text round trips are pure functions of one candle or one string: nothing stateful, timed, fallible or multi-party to simulate (DESIGN.md §5).",
}
PENDING = "check under construction in this session (planned in DESIGN.md §4/§7); not claimed until its check is registered and passes"

def main():
    props = [json.loads(l) for l in open(os.path.join(V, "properties.jsonl"))]
    checks, na = [], []
    for p in props:
        i = p["id"]
        if i in CHECKS:
            c = CHECKS[i]
            checks.append({
                "property_id": i,
                "quick_cmd": f"bin/check {i} quick",
                "thorough_cmd": f"bin/check {i} thorough",
                "evidence_file": f"evidence/{i}.json",
                "replay_cmd_template": f"bin/check {i} --replay {{path}}",
                "engine": "yata-sim",
                "level_claimed": {"category": c["level"], "text": c["text"], "design_ref": c["design"]},
                "level_note": c["note"],
                "technique": c["technique"],
            })
        elif i in NA:
            na.append({"property_id": i, "reason": NA[i]})
        else:
            na.append({"property_id": i, "reason": PENDING})
    m = {
        "version": 1,
        "setup_cmd": "bin/setup",
        "hooks": {
            "guard": "none (no hooks: the simulator drives yata through its public API and its serde impls only)",
            "enable": "not applicable - checks build /repo as a path dependency of /verif/sim with the cargo features of the feature set under test",
            "baseline_off_cmd": "cd /repo && cargo test --workspace --no-fail-fast --offline",
            "source_commits": [],
            "add_only": True,
        },
        "engines": [{
            "name": "yata-sim", "path": "sim/",
            "serves_properties": [c["property_id"] for c in checks],
            "kind_free_text": "single-process deterministic simulator (seeded xoshiro256** decides every feed value, operation, chunking, crash point and storage fault); real yata instances; reference models as oracles; explicit-case replay files; in-process delta-debugging minimiser",
        }],
        "checks": checks,
        "not_applicable": na,
        "notes": "Fix commits in /repo (unguarded, 'fix:'): see known_findings.json 'fixed'. Exit codes: 0 held, 1 violation (VIOLATION lines), 2 harness error. VERIF_SEED / VERIF_TIER honoured; default seed fixed.",
    }
    json.dump(m, open(os.path.join(V, "MANIFEST.json"), "w"), indent=1)
    print("MANIFEST.json:", len(checks), "checks,", len(na), "not claimed")

if __name__ == "__main__":
    main()
