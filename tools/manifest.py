#!/usr/bin/env python3
"""Regenerates /verif/MANIFEST.json from the table below (single source of truth for the interface file)."""
import json, os, sys
V = os.path.dirname(os.path.dirname(os.path.abspath(__file__)))

TECH = "deterministic simulation with fault injection: "
CHECKS = {
 "C01": dict(level="exploration", design="§4 C01",
   technique=TECH + "seeded op-history simulation of Window<T> (pushes, observers, iterator splits incl. fold/for_each/nth/skip/step_by/reduce on partially consumed iterators, restart/rebuild through every export path incl. clone and clone_from into a used window, storage-fault injection on the serialized form) against a VecDeque reference model, op by op",
   text="Seeded search over operation histories on the real Window<T>; every observer is compared with a VecDeque model after every op; thorough stratifies the capacity over every value 0..=254 (0..=4094 would need the u16 build, see C20) so the capacity dimension is complete while phases/observer choices are sampled. A clean batch is evidence, not proof.",
   note="Trusted: the VecDeque model, the simfmt serializer/deserializer written for this task, catch_unwind classification of documented panics. Labels stand for all element values (parametricity)."),
 "C02": dict(level="exploration", design="§4 C02, §3.2",
   technique=TECH + "seeded fault-feed streams (stuck feed, ties, spikes, scale jumps, gaps, signed zeros) through the real finite-window methods; per-step refinement against from-scratch reference models with a tracked rounding allowance (reduced fit: no schedule exists in this property)",
   text="Per-step refinement of every finite-window method against its documented formula on the last `length` inputs, two-sided, within the frozen allowance D(t)=c_m*u*(n+t)*S; a second replica is built from element 0 and fed from element 1 on (the construction value is the prehistory whether or not it is delivered again). Feeds include a dyadic tick grid (exact sums, exact ties), levels of 1e+-20..1e+-60 and zero-volume pairs for VWMA. Thorough stratifies half of the runs over every length; streams up to 10^4 ticks (quick: one run in eight is 1100..2600 values long). Samples the stream space; a clean batch is evidence, not proof.",
   note="Trusted: reference models written from the doc comments (DESIGN.md App. A), Neumaier-compensated f64 sums, drift constants frozen after calibration (10x worst observed, power of two)."),
 "C03": dict(level="exploration", design="§4 C03, §3.3",
   technique=TECH + "same engine as C02; oracle = free-running documented recurrence as tracked numbers (contraction of the error for exponential kinds, interval rule where Vidya's Chande factor is 0/0 or residue/residue)",
   text="Per-step refinement of the recursive methods against their recurrences on the whole stream so far; flat-after-movement regimes are injected on purpose. Samples streams and lengths (WSMA 1..127, TSI pairs, all others 1..254).",
   note="Trusted: reference recurrences (App. A); for Vidya the factor is only required to lie in [0,1] where its definition is 0/0."),
 "C04": dict(level="exploration", design="§4 C04",
   technique=TECH + "order-pattern feeds (small alphabets incl. both zeros, zeros of both signs as the extremum, saw-teeth of period n-1/n/n+1, monotone runs, equal extrema spaced n apart, stuck feed, subnormal magnitudes) through the real selection methods; exact comparison with from-scratch max/min/arg/median",
   text="Exact (up to the sign of zero) comparison of Highest, Lowest, HighestLowestDelta, HighestIndex, LowestIndex, SMM and MedianAbsDev's median with the from-scratch selection at every step.",
   note="Trusted: the from-scratch selection over a VecDeque of the last n inputs."),
 "C14": dict(level="exploration", design="§4 C14",
   technique=TECH + "pairs of streams with touches/equal series/zero base for the crossing detectors and streams longer than 4*PeriodType::MAX with plateaus and saw-teeth for the reversal detectors; exact comparison with the from-scratch detector",
   text="Exact comparison of Cross/CrossAbove/CrossUnder and Upper/Lower/ReversalSignal with their definitional detectors at every step, including positions beyond PeriodType::MAX; the crossing detectors additionally as a replica built from pair 0 and fed from pair 1 on (the state set by new() is then observable).",
   note="Trusted: the reference detectors (newest-wins tie rule as documented in DESIGN.md App. A)."),
 "C09": dict(level="exploration", design="§4 C09, §2.5",
   technique=TECH + "two-run discipline: run A = new+next per element; run B = seeded schedule of delivery events (chunk boundaries incl. empty chunks, batch API per chunk: over/call/apply/into_fn/new_over/new_apply/IndicatorConfig::over/init_fn/dyn over), peeks, forks (by clone and by clone_from into a used instance built from other parameters) with interleaved different continuations; bitwise comparison per tick per replica",
   text="Seeded search over delivery schedules and clone points for every method, wrapper, MA-dispatched instance and indicator; any schedule-dependent difference is a bit-level mismatch. Samples schedules; not exhaustive.",
   note="Trusted: run A as the reference behaviour (its own correctness is C02-C06); the scheduler; catch_unwind."),
 "C13": dict(level="fault_enumeration", design="§4 C13, §2.4",
   technique=TECH + "crash/restart through a fault-injecting serde seam: for each seeded (SUT, configuration, stream) the crash point is enumerated (snapshot after j ticks for every j in 0..=2n+3 through tree / byte codec / JSON), the restored replica must continue bit-identically; serializer failure injected at every call index; storage faults (truncate, bit flip, window index/buffer damage, dropped field, NaN) on snapshots must be rejected or yield no panic",
   text="The crash-point dimension is enumerated completely for every drawn (SUT, parameters); SUT/parameters/streams are seeded. Covers every method with serde, MAInstance and all 36 indicators, configs and small value types.",
   note="Trusted: simfmt serializer/deserializer and byte codec written for this task (self-checked round trip), serde_json as a second carrier."),
 "C10": dict(level="exploration", design="§4 C10",
   technique=TECH + "configuration swarm stratified over every PeriodType value for every constructor / MA kind / indicator field (incl. float specials, every Source), then every accepted instance consumes a 600+ tick fault feed under catch_unwind; seeded garbage through MA::from_str / Source::from_str / set (partial fit: constructor totality is a stateless clause, decided by stratified seeded sampling of the configuration space)",
   text="Complete over the 256 length values per single-length constructor and per MA kind (measured in evidence), boundary grid + seeded pairs (quick) or all 65 536 pairs (thorough) for two-parameter methods, one-field-at-a-time boundary sweep plus seeded multi-field mutations for the 36 indicator configurations. The 'never panics on a valid stream' clause is sampled (600-tick fault feeds).",
   note="Strict build profile (debug assertions + overflow checks, as in the dev profile of the baseline). Documented minima from the doc comments. Known findings: the PeriodType::MAX family and NaN into SMM (known_findings.json)."),
 "C11": dict(level="exploration", design="§4 C11",
   technique=TECH + "shape monitor on every step of seeded runs; static replica vs three dyn replicas (tick-wise, config over, chunked instance over) compared bitwise; set() through static and dyn interface compared against the expected configuration tree read through the serde seam (partial fit: set() is a stateless clause, decided by seeded sampling)",
   text="Every indicator, default and mutated valid configurations, every public parameter name (enumerated from the serialized configuration) with parsable and unparsable texts, unknown and near-miss names; shape/name/dyn equivalence at every step of fault-feed candle streams; config-level over() of the dyn and the static interface on batches of 0..3 candles (valid and invalid configurations); the accessors value(i)/signal(i)/values()/signals()/lengths/size() of every result against each other incl. the documented panic beyond the length; first candles that fail OHLCV::validate() through the static and the dyn init (same Ok/Err).",
   note="Public parameter names = pub fields of the configuration struct = fields of its serialized form (Example: `price`). Expected parse results are produced by the harness (decimal numbers, source names, 'kind-len')."),
 "C08": dict(level="exploration", design="§4 C08",
   technique=TECH + "duplicate-delivery fault on the first tick: replicas R_k receive k extra leading copies of the first element (k in {1,2,n-1,n,n+1,3n,1000}, thorough up to 10^6); constancy during the duplicated prefix (exact for selections/signals, drift-free allowance for arithmetic) and replica agreement with R_0 afterwards; ill-conditioned steps identified by three few-ulp input perturbation replicas (a quarter of the allowance counts)",
   text="Every method, wrapper, MA kind and indicator with seeded parameters, initial values of any magnitude/sign/zero, fault-feed continuations. The allowance for arithmetic outputs does not grow with the number of copies, so unbounded drift is detected at large k (thorough).",
   note="Allowance 2*D(0) with the largest frozen method constant; signals compared exactly while values are bit-identical and outside the allowance of zero (three-valued logic, DESIGN.md §3.4); steps whose value moves more than the allowance under a few-ulp perturbation of the inputs are exempt (ill-conditioned). Known findings: TrendStrengthIndex on constant input, RVI on zero-range stretches."),
 "C17": dict(level="exploration", design="§4 C17",
   technique=TECH + "converter runs with injected boundary-landing price faults for Renko (price exactly on / one ulp below / above the next brick boundary read from the live serialized state, k bricks away, multi-brick jumps, reversals), exactly-once-emission and conservation oracles; CollapseTimeframe streaming vs batch collapse on the whole stream and seeded sub-ranges; HeikinAshi validity monitor",
   text="Seeded search over candle streams, periods 1..40 (one collapse run in eight: 255..2140, beyond 8 bits' worth of inputs), brick sizes in [eps,1) and all price sources; per-step oracles: no panic, emission iff boundary reached, contiguity, equal relative size, one direction, volume conservation, iterator consistency; collapse aggregation and batch/streaming equality.",
   note="Boundaries are read from Renko's serialized state through the serde seam (no hook). The aggregated OHLCV view of RenkoOutput is outside the property's statement and only counted as an observation (its close() is base + size*len although bricks are relative)."),
 "C12": dict(level="exploration", design="§4 C12",
   technique=TECH + "invariant monitors evaluated at every step of seeded indicator/method runs while the feed injects the regimes the property names: volatile -> exactly flat (stuck feed longer than every window, degenerate bars) -> volatile, zero-volume bars, spikes and scale jumps, exactly flat tails of 700..1600 values with short smoothing periods (reduced fit: monitoring of state machines under feed faults, no schedule)",
   text="Interval / ordering / containment / sign / finiteness predicates for the 14 range-documented indicators, 6 methods, clv and tr on every step; finiteness for all 36 indicators. Allowances: 64*u*(n+t) for unit-interval ratios (scaled by M_history/denominator for ratios of running sums, NOT relaxed on exactly flat windows), times price scale for orderings.",
   note="Value-slot meanings from DESIGN.md App. B. RSI/Stochastic/SMI/Envelopes range monitors only for MA kinds that cannot overshoot; volume-based sources exempt; finiteness exempt where the formula is undefined (zero window volume, correlation of a constant window)."),
 "C19": dict(level="exploration", design="§4 C19, §2.7",
   technique=TECH + "heterogeneous builds as replicas: the same seeded programs (Window observers/iterators/rebuilds, methods and indicators with ticks, batches, peeks, snapshots, crash-restores, forks) are executed by the default build and by the unsafe_performance build and the transcripts diffed; a second program set is executed by the unsafe_performance build inside the Miri interpreter, whose undefined-behaviour detector (bounds, validity, Stacked Borrows aliasing) is the in-bounds oracle; the crash / restore / corrupt-restore engine of C13 re-run inside the unsafe_performance build (storage faults are not part of the programs)",
   text="Transcript equality on 3 000 (quick) / 30 000 (thorough, also plain release profile) programs filtered to those on which the default build does not panic; 24 / 400 programs under Miri, biased to Window/SMM/median users. Samples programs; Miri decides only the executions it ran.",
   note="Programs are generated by the default build and handed over as explicit JSON. Miri's Stacked Borrows is experimental but is the strictest available in-bounds/aliasing oracle here (ASan needs a rebuilt std; not attempted). Transcripts produced under Miri are not compared."),
 "C20": dict(level="exploration", design="§4 C20, §2.7",
   technique=TECH + "heterogeneous builds as replicas: programs whose parameters fit u8 executed by the default, period_type_u16, period_type_u32, period_type_u64 builds (thorough: + unsafe_performance combination), transcripts diffed; the definitional engines of C01/C02/C04/C14 re-run inside the u16 build with windows up to 600/3000 and streams longer than 2^16 for the position counters, and C01-C04/C14 plus the indicator references C05/C06 and the averaging laws C15 inside the value_type_f32 build with u = 2^-23 and the reference in f64",
   text="Transcript equality of results (integers by value; serialized internal state is not part of the transcript because position counters of different width may legitimately be re-based differently) plus in-build definitional checks. Samples programs and streams.",
   note="In the f32 build the feed keeps magnitudes where squares and window sums stay far from f32::MAX (overflow is not a rounding effect). u32/u64 builds run transcripts only (their extra capacity cannot be allocated)."),
 "C15": dict(level="exploration", design="§4 C15",
   technique=TECH + "replica groups: instances of the same kind and length fed related streams (affine image, constant, sum of two streams, impulse) on fault-feed inputs; algebraic relations between the replicas' outputs checked per step with the tracked allowance; impulse responses compared with closed-form documented weight profiles (reduced fit: metamorphic relations between runs, no schedule)",
   text="All 15 MA kinds of the MA constructor plus Conv and VWMA; five laws; a and b from a fixed set incl. negative a and the exact power-of-two factors 2^-80 and 2^70 (b = 0); VWMA with zero-volume pairs inside the window; flat-after-volatile regimes enabled; the impulse response is stratified over every length 1..=254 (thorough, complete in the length dimension).",
   note="Allowance 2048*u*(n+t)*M (twice the largest frozen drift constant), VWMA with the quotient-of-running-sums scaling. Constant reproduction read as fixed point up to rounding of the documented normalisation; bit-exact reproduction is counted in the evidence."),
 "C07": dict(level="exploration", design="§4 C07, §3.2",
   technique=TECH + "long simulated time (quick 2*10^6, thorough 10^7 and 3*10^7 ticks per method) on regime streams with faults far in the past; definitional oracle re-established at late checkpoints by a reference model primed with the last window and told the true history (t, M), allowance linear in t; late-joining fresh real replica primed with the last window must agree with the long-running instance; range monitors at every late step for the ratio indicators named in the anchors; model family: every indicator with a reference model on 7*10^4..4*10^5 candles of a long regime stream, very long flats, or a one-sided trend (up/down x ripple/strictly monotone) against that model at every step",
   text="31 finite-window/detector methods, 13 recursive methods (free-running recurrence at every step), 10 finite-window indicators (late join) and CMO/MFI/RSI/Parabolic SAR (range monitors at every step); 34 indicators in the model family (12 / 36 runs each: values within tracked bounds whose drift terms are linear in t, signals in three-valued logic with counters of unbounded width, a panic after a long prefix is a violation). Checkpoints: first 2000 steps, multiples of 2^8 (first 64) and 2^16, PeriodType::MAX +-1, 60/300 seeded late positions, end of run.",
   note="Replay files carry feed seed + length (sequential generator) instead of 10^7 explicit values. Ratio-of-running-sums indicators are not compared with a fresh replica near their singular points (both sides divide residue there): see DESIGN.md Corrections. Known finding: super-linear drift of the double-accumulator averages (WMA/SWMA/LinReg/HMA) beyond 1e4 candles."),
 "C05": dict(level="exploration", design="§4 C05, §3.5, App. B",
   technique=TECH + "seeded valid-candle fault feeds (flats, gaps, zero-volume bars, spikes, scale jumps) through all 36 real indicators with seeded valid configurations (every MA kind, boundary periods); per-step refinement of the raw values against reference indicators composed from the tracked-number reference methods (reduced fit: no schedule exists in this property)",
   text="All 36 shipped indicators have a reference model (suts_covered in the evidence); values compared two-sided within the tracked allowance; undefined quotients exempt and counted (about 4%). Samples configurations and streams.",
   note="Reference indicators written by one person from doc comments + linked definitions (DESIGN.md App. B): N-version evidence. Where the crate's own doc gives no formula and the linked page differs (MFI uses volume instead of typical price*volume, RVI uses close-to-close changes) the implemented formula was taken as the documented one; documented-layout deviations are known findings."),
 "C06": dict(level="exploration", design="§4 C06, §3.4",
   technique=TECH + "same runs as C05; every signal slot compared with the documented rule evaluated in three-valued logic over the tracked reference values (crossings, band touches, reversal points, trend flips, peak counters, proportional strengths through the same Action::from quantisation); Unknown verdicts and tainted latches are exempt and counted",
   text="All signal slots of all 36 indicators; True/False verdicts must match exactly. About 10% of the slots are exempt (deciding quantity inside its own rounding allowance or a latch tainted by such a step); per-indicator exempt ratios are in the evidence.",
   note="Same trusted base as C05. Known findings: KeltnerChannel signal sign, TrendStrengthIndex signal #2."),
}
NA = {
 "C16": "Action algebra is a total, stateless algebra over a finite domain: no history, state, fault, replica or schedule for a simulator to drive; the fitting technique (exhaustive enumeration) is model checking, which this task excludes (DESIGN.md §5).",
 "C18": "Candle helper identities and text round trips are pure functions of one candle or one string: nothing stateful, timed, fallible or multi-party to simulate (DESIGN.md §5).",
}
PENDING = "check under construction in this session (planned in DESIGN.md §4/§7); not claimed until its check is registered and passes"

def main():
    props = [json.loads(l) for l in open(os.path.join(V, "properties.jsonl"))]
    checks, na = [], []
    for p in props:
        i = p["id"]
        if i in CHECKS:
            c = CHECKS[i]
            checks.append({
                "property_id": i,
                "quick_cmd": f"bin/check {i} quick",
                "thorough_cmd": f"bin/check {i} thorough",
                "evidence_file": f"evidence/{i}.json",
                "replay_cmd_template": f"bin/check {i} --replay {{path}}",
                "engine": "yata-sim",
                "level_claimed": {"category": c["level"], "text": c["text"], "design_ref": c["design"]},
                "level_note": c["note"],
                "technique": c["technique"],
            })
        elif i in NA:
            na.append({"property_id": i, "reason": NA[i]})
        else:
            na.append({"property_id": i, "reason": PENDING})
    m = {
        "version": 1,
        "setup_cmd": "bin/setup",
        "hooks": {
            "guard": "none (no hooks: the simulator drives yata through its public API and its serde impls only)",
            "enable": "not applicable - checks build /repo as a path dependency of /verif/sim with the cargo features of the feature set under test",
            "baseline_off_cmd": "cd /repo && cargo test --workspace --no-fail-fast --offline",
            "source_commits": [],
            "add_only": True,
        },
        "engines": [{
            "name": "yata-sim", "path": "sim/",
            "serves_properties": [c["property_id"] for c in checks],
            "kind_free_text": "single-process deterministic simulator (seeded xoshiro256** decides every feed value, operation, chunking, crash point and storage fault); real yata instances; reference models as oracles; explicit-case replay files; in-process delta-debugging minimiser",
        }],
        "checks": checks,
        "not_applicable": na,
        "notes": "Fix commits in /repo (unguarded, 'fix:'): see known_findings.json 'fixed'. Exit codes: 0 held, 1 violation (VIOLATION lines), 2 harness error. VERIF_SEED / VERIF_TIER honoured; default seed fixed.",
    }
    json.dump(m, open(os.path.join(V, "MANIFEST.json"), "w"), indent=1)
    print("MANIFEST.json:", len(checks), "checks,", len(na), "not claimed")

if __name__ == "__main__":
    main()
